//! C14: no input crashes, wedges or confuses an instance.
//!
//! Case kinds:
//! * `Texts`: a batch of texts for the four parsers and `Parameters::from_json`, derived from the
//!   pest grammars of the repository (module `pest_gen`), mutated, or raw; parsed and, when they
//!   parse, executed on the in-memory path;
//! * `Requests`: a generated model and structurally valid but odd requests against it, executed on
//!   the in-memory path and, for a sample, through a real instance;
//! * `Instance`: wire queries, rows, invitation bytes, signature checks against a running instance;
//! * `Pull`: the real synchronisation code of an instance talking to a server whose answers are
//!   rewritten;
//! * `Bomb`: deeply nested texts, parsed in a child process (a stack overflow kills a process);
//! * `Fuzz`: the coverage guided campaigns of `/verif/fuzz` (thorough tier only).

mod fuzzrun;
mod inst;
mod model;
mod pest_gen;
mod shared;

use dv::engine::*;
use model::*;
use pest_gen::{Grammar, Mutation, Pools};
use proptest::prelude::*;
use proptest::strategy::BoxedStrategy;
use serde::{Deserialize, Serialize};
use shared::{classify_sql, facts_from_text, plausible_value, MemWorld, PVal, Verdict};
use std::collections::BTreeMap;

#[derive(Serialize, Deserialize, Debug, Clone)]
pub struct TextItem {
    /// 0 data model, 1 query, 2 mutation, 3 deletion, 4 parameters (JSON)
    pub target: u8,
    pub dna: Vec<u8>,
    pub muts: Vec<Mutation>,
    pub raw: Option<String>,
    pub salt: u8,
}

#[derive(Serialize, Deserialize, Debug, Clone)]
pub struct TextsCase {
    pub model: ModelSpec,
    pub items: Vec<TextItem>,
}

#[derive(Serialize, Deserialize, Debug, Clone)]
pub struct ReqCase {
    pub model: ModelSpec,
    pub reqs: Vec<Req>,
    pub via_instance: bool,
}

#[derive(Serialize, Deserialize, Debug, Clone)]
pub struct BombCase {
    /// 0 data model, 1 query, 2 mutation, 3 deletion, 4 parameters
    pub target: u8,
    pub shape: u8,
    pub depth: u32,
}

#[derive(Serialize, Deserialize, Debug, Clone)]
pub struct FuzzCase {
    pub target: String,
    pub seconds: u32,
    pub seeded: bool,
}

#[derive(Serialize, Deserialize, Debug, Clone)]
pub enum Case {
    Texts(TextsCase),
    Requests(ReqCase),
    Instance(Vec<inst::Step>),
    Pull(Vec<inst::AnswerPlan>),
    Bomb(BombCase),
    Fuzz(FuzzCase),
    /// an input of a fuzz target (a crash artifact of a campaign, or a seed)
    Artifact { target: String, hex: String },
}

// ---------------------------------------------------------------------------------------------
// strategies
// ---------------------------------------------------------------------------------------------

pub fn mutation_strategy() -> impl Strategy<Value = Mutation> {
    prop_oneof![
        3 => any::<u16>().prop_map(Mutation::DelTok),
        2 => any::<u16>().prop_map(Mutation::DupTok),
        2 => (any::<u16>(), any::<u16>()).prop_map(|(a, b)| Mutation::SwapTok(a, b)),
        1 => (any::<u16>(), any::<u8>()).prop_map(|(a, b)| Mutation::RepeatTok(a, b)),
        2 => (any::<u16>(), any::<u8>()).prop_map(|(a, b)| Mutation::FlipByte(a, b)),
        1 => any::<u16>().prop_map(Mutation::Truncate),
        2 => (any::<u16>(), prop_oneof![
            Just("{".to_string()), Just("}".to_string()), Just("(".to_string()), Just(")".to_string()), Just("[".to_string()),
            Just("]".to_string()), Just("\"".to_string()), Just("$".to_string()), Just(":".to_string()), Just(",".to_string()),
            Just("->".to_string()), Just("\\".to_string()), Just("//".to_string()), Just("\u{0}".to_string()), Just("null".to_string()),
            Just("@deprecated".to_string()), Just(".".to_string()), Just("$.".to_string()), Just("'".to_string()), Just("-".to_string()),
            "\\PC{0,6}",
        ]).prop_map(|(a, s)| Mutation::Insert(a, s)),
        1 => (any::<u16>(), any::<u8>(), any::<u8>()).prop_map(|(a, b, c)| Mutation::Nest(a, b, c)),
    ]
}

fn text_item_strategy() -> impl Strategy<Value = TextItem> {
    (
        prop_oneof![2 => Just(0u8), 4 => Just(1u8), 3 => Just(2u8), 1 => Just(3u8), 1 => Just(4u8)],
        prop::collection::vec(any::<u8>(), 0..160),
        prop_oneof![4 => Just(Vec::new()).boxed(), 5 => prop::collection::vec(mutation_strategy(), 1..4).boxed()],
        prop::option::weighted(0.08, prop_oneof!["\\PC{0,40}", "[ -~\\n]{0,60}", "(query|mutate|delete)? ?\\{[ -~]{0,40}\\}"]),
        any::<u8>(),
    )
        .prop_map(|(target, dna, muts, raw, salt)| TextItem { target, dna, muts, raw, salt })
}

fn texts_strategy(n: usize) -> impl Strategy<Value = Case> {
    (model_strategy(3, 5), prop::collection::vec(text_item_strategy(), 1..=n)).prop_map(|(model, items)| Case::Texts(TextsCase { model, items }))
}

fn requests_strategy(n: usize, instance_share: f64) -> impl Strategy<Value = Case> {
    (model_strategy(3, 6), prop::collection::vec(req_strategy(), 1..=n), prop::bool::weighted(instance_share))
        .prop_map(|(model, reqs, via_instance)| Case::Requests(ReqCase { model, reqs, via_instance }))
}

fn instance_strategy(n: usize) -> impl Strategy<Value = Case> {
    prop::collection::vec(inst::step_strategy(), 1..=n).prop_map(Case::Instance)
}

fn bomb_strategy() -> impl Strategy<Value = Case> {
    prop_oneof![
        3 => (1u32..40).prop_map(|depth| BombCase { target: 1, shape: 0, depth }),
        1 => (1u8..3, 0u8..4, 1u32..3000).prop_map(|(target, shape, depth)| BombCase { target, shape, depth }),
    ]
    .prop_map(Case::Bomb)
}

fn pull_strategy() -> impl Strategy<Value = Case> {
    prop::collection::vec(inst::answer_plan_strategy(), 1..14).prop_map(Case::Pull)
}

// ---------------------------------------------------------------------------------------------
// grammars
// ---------------------------------------------------------------------------------------------

struct Grammars {
    model: Grammar,
    query: Grammar,
    mutation: Grammar,
    deletion: Grammar,
}

fn grammars() -> &'static Grammars {
    static G: std::sync::OnceLock<Grammars> = std::sync::OnceLock::new();
    G.get_or_init(|| Grammars {
        model: Grammar::load("data_model.pest").expect("data_model.pest"),
        query: Grammar::load("query.pest").expect("query.pest"),
        mutation: Grammar::load("mutation.pest").expect("mutation.pest"),
        deletion: Grammar::load("deletion.pest").expect("deletion.pest"),
    })
}

fn pools_for(model: &RModel) -> Pools {
    let mut p = Pools::default();
    for e in &model.ents {
        p.entities.push(e.full_name.clone());
        for f in &e.fields {
            if !p.fields.contains(&f.name) {
                p.fields.push(f.name.clone());
            }
        }
    }
    p.entities.push("zzprobe.P".into());
    p.entities.push("sys.Room".into());
    p.entities.push("sys.Peer".into());
    for s in ["id", "room_id", "cdate", "mdate", "sys_room", "sys_peer", "verifying_key", "_signature", "name", "n"] {
        p.fields.push(s.to_string());
    }
    for s in KEYWORDS.iter().chain(DIGIT_FIRST.iter()).chain(UNICODE.iter()) {
        p.odd.push(s.to_string());
    }
    p.odd.push("L".to_string() + &"o".repeat(300));
    p.odd.push("_x".to_string());
    p.odd.push("Integer".to_string());
    p.odd.push("json".to_string());
    for s in ["v1", "id", "name", "x", "select", "1", "é"] {
        p.variables.push(s.to_string());
    }
    p
}

/// a JSON text for `Parameters::from_json`, driven by dna
fn params_json_tokens(dna: &[u8]) -> Vec<String> {
    let mut t: Vec<String> = vec!["{".into()];
    let keys = ["name", "v1", "id", "n", "", "select", "é", "name"];
    let vals = [
        "null", "true", "false", "0", "-1", "1.5", "1e400", "9223372036854775807", "9223372036854775808", "18446744073709551616",
        "-9223372036854775809", "\"x\"", "\"\"", "\"emV0\"", "[1]", "{\"a\":1}", "\"\\u0000\"", "1E-400", "0.1e1", "NaN",
    ];
    let n = dna.first().copied().unwrap_or(0) as usize % 6;
    for i in 0..n {
        let k = dna.get(1 + 2 * i).copied().unwrap_or(0) as usize;
        let v = dna.get(2 + 2 * i).copied().unwrap_or(0) as usize;
        if i > 0 {
            t.push(",".into());
        }
        t.push(format!("\"{}\"", keys[k % keys.len()]));
        t.push(":".into());
        t.push(vals[v % vals.len()].to_string());
    }
    t.push("}".into());
    t
}

fn json_to_pvals(text: &str) -> Vec<(String, PVal)> {
    let mut out = Vec::new();
    if let Ok(serde_json::Value::Object(m)) = serde_json::from_str::<serde_json::Value>(text) {
        for (k, v) in m {
            let pv = match v {
                serde_json::Value::Null => PVal::Null,
                serde_json::Value::Bool(b) => PVal::Bool(b),
                serde_json::Value::Number(n) => {
                    if let Some(i) = n.as_i64() {
                        PVal::Int(i)
                    } else {
                        PVal::Float(n.as_f64().unwrap_or(0.0))
                    }
                }
                serde_json::Value::String(s) => PVal::Str(s),
                _ => continue,
            };
            out.push((k, pv));
        }
    }
    out
}

// ---------------------------------------------------------------------------------------------
// interpretation
// ---------------------------------------------------------------------------------------------

const FALLBACK_MODEL: &str = "{ Person { name: String, age: Integer nullable, data: Json nullable, pet: Pet nullable, friends: [Person] } Pet { name: String default \"rex\" } }";

fn panics_to_violations(o: &mut Outcome, stage: &str, detail: &str) -> usize {
    inst::report_panics(o, stage, detail)
}

fn short(s: &str) -> String {
    let n = if std::env::var("C14_LONG").is_ok() { 6000 } else { 600 };
    let t: String = s.chars().take(n).collect();
    t.replace('\n', "\\n")
}

fn run_texts(c: &TextsCase, o: &mut Outcome) {
    let g = grammars();
    let rmodel = resolve_model(&c.model);
    let _ = shared::take_panics();
    let mut world = match MemWorld::new(&rmodel.text, true) {
        Ok(w) => w,
        Err(out) => {
            panics_to_violations(o, "texts.model-setup", &short(&rmodel.text));
            if let Verdict::SqlErr(m) = &out.verdict {
                o.violation(classify_sql("model", m, &Default::default()), format!("{} | model: {}", short(m), short(&rmodel.text)));
            }
            o.label("texts:generated-model-refused");
            match MemWorld::new(FALLBACK_MODEL, true) {
                Ok(w) => w,
                Err(_) => {
                    o.discard = Some("fallback-model-refused".into());
                    return;
                }
            }
        }
    };
    let pools = pools_for(&rmodel);
    let mut passed = 0u64;
    let mut probe_k = 0u64;
    for item in &c.items {
        let (grammar, start, stage) = match item.target % 5 {
            0 => (Some(&g.model), "datamodel", "parse.model"),
            1 => (Some(&g.query), "query", "mem.query"),
            2 => (Some(&g.mutation), "mutation", "mem.mutate"),
            3 => (Some(&g.deletion), "deletion", "mem.delete"),
            _ => (None, "", "parse.params"),
        };
        let tokens = match grammar {
            Some(gr) => pest_gen::derive(gr, start, &item.dna, &pools),
            None => params_json_tokens(&item.dna),
        };
        let text = match &item.raw {
            Some(r) => r.clone(),
            None => pest_gen::apply_mutations(&tokens, &item.muts),
        };
        let derived_only = item.raw.is_none() && item.muts.is_empty();
        o.count("texts", 1);
        let mut passed_grammar = false;
        match item.target % 5 {
            0 => {
                let p = shared::parse_model_text(&text);
                passed_grammar = p.passed_grammar;
                if derived_only && !p.passed_grammar && !text.contains('\u{0}') {
                    o.count("derived_model_text_rejected_by_grammar", 1);
                }
                if p.accepted {
                    o.label("model-text:accepted");
                    // the statements generated for an accepted model must be accepted by the engine
                    match MemWorld::new(&text, false) {
                        Ok(_) => {}
                        Err(out) => {
                            if let Verdict::SqlErr(m) = &out.verdict {
                                o.violation(classify_sql("model", m, &facts_from_text(&text, "")), format!("{} | model: {}", short(m), short(&text)));
                            }
                        }
                    }
                }
            }
            4 => {
                let p = shared::parse_params_json(&text);
                passed_grammar = p.passed_grammar;
                if p.accepted {
                    o.label("params-json:accepted");
                    let pv = json_to_pvals(&text);
                    let out = world.query("query { zzprobe.P (name = $name, n = $n) { id name } }", &pv);
                    if let Verdict::SqlErr(m) = &out.verdict {
                        o.violation(classify_sql("query", m, &Default::default()), format!("{} | params {}", m, short(&text)));
                    }
                }
            }
            t => {
                let kind = ['q', 'm', 'd'][(t - 1) as usize];
                let vars = world.request_variables(kind, &text).unwrap_or_default();
                let params: Vec<(String, PVal)> = vars
                    .iter()
                    .enumerate()
                    .map(|(i, (n, ty, nullable))| (n.clone(), plausible_value(ty, *nullable, item.salt.wrapping_add((i * 37) as u8))))
                    .collect();
                let out = match kind {
                    'q' => world.query(&text, &params),
                    'm' => world.mutate(&text, &params),
                    _ => world.delete(&text, &params),
                };
                passed_grammar = out.passed_grammar;
                if derived_only && !out.passed_grammar && !text.contains('\u{0}') {
                    o.count("derived_request_text_rejected_by_grammar", 1);
                }
                match &out.verdict {
                    Verdict::SqlErr(m) => {
                        let facts = facts_from_text(&world.model_text, &text);
                        o.violation(classify_sql(stage.trim_start_matches("mem."), m, &facts), format!("{} | {} | model: {}", short(m), short(&text), short(&world.model_text)));
                    }
                    Verdict::Ok => o.label(format!("{}:executed", stage)),
                    Verdict::DataErr(_) => o.label("fts5-expression-error"),
                    Verdict::SemanticErr => o.label(format!("{}:semantic-err", stage)),
                    Verdict::ExecErr => o.label(format!("{}:exec-err", stage)),
                    _ => {}
                }
            }
        }
        if passed_grammar {
            passed += 1;
        }
        let n = panics_to_violations(o, stage, &format!("text: {}", short(&text)));
        if n == 0 && passed_grammar {
            probe_k += 1;
            if let Err(e) = world.probe(probe_k) {
                if panics_to_violations(o, &format!("{}+probe", stage), &short(&text)) == 0 {
                    o.violation(format!("probe-failed@{}", stage), format!("{} after {}", e, short(&text)));
                }
            } else {
                o.count("probes_ok", 1);
            }
        }
    }
    o.count("texts_passing_grammar", passed);
    o.nontrivial = passed > 0;
    if passed > 0 {
        o.label("texts:some-pass-grammar");
    }
}

fn run_requests(c: &ReqCase, ctx: &RunCtx, o: &mut Outcome) {
    let rmodel = resolve_model(&c.model);
    for e in &rmodel.excluded {
        o.count(&format!("excluded:{}", e), 1);
    }
    let _ = shared::take_panics();
    let mut world = match MemWorld::new(&rmodel.text, true) {
        Ok(w) => w,
        Err(out) => {
            panics_to_violations(o, "requests.model-setup", &short(&rmodel.text));
            match &out.verdict {
                Verdict::SqlErr(m) => o.violation(classify_sql("model", m, &Default::default()), format!("{} | model: {}", short(m), short(&rmodel.text))),
                _ => {
                    o.label("requests:generated-model-refused");
                    o.discard = Some(format!("model-refused:{}", out.error.unwrap_or_default().chars().take(60).collect::<String>()));
                }
            }
            return;
        }
    };
    let mut instance = if c.via_instance {
        match inst::World::start(ctx.case_dir("inst"), &rmodel.text) {
            Ok(w) => Some(w),
            Err(e) => {
                panics_to_violations(o, "requests.instance-start", &short(&rmodel.text));
                o.label("requests:instance-start-failed");
                o.count("instance_start_failed", 1);
                let _ = e;
                None
            }
        }
    } else {
        None
    };
    let mut rows_mem: Vec<String> = Vec::new();
    let mut rows_inst: Vec<String> = Vec::new();
    let mut parsed_any = false;
    let mut probe_k = 0;
    for req in &c.reqs {
        let r = render(req, &rmodel, c.model.avoid, &rows_mem, None);
        for e in &r.excluded {
            o.count(&format!("excluded:{}", e), 1);
        }
        for cmb in &r.combos {
            o.count(&format!("combo:{}", cmb), 1);
        }
        if r.odd_idents {
            o.label("req:odd-identifiers");
        }
        if r.dup_alias {
            o.label("req:duplicated-alias");
        }
        if r.empty_selection {
            o.label("req:empty-selection");
        }
        let stage = match r.kind {
            'q' => "mem.query",
            'm' => "mem.mutate",
            _ => "mem.delete",
        };
        let out = match r.kind {
            'q' => world.query(&r.text, &r.params),
            'm' => world.mutate(&r.text, &r.params),
            _ => world.delete(&r.text, &r.params),
        };
        let detail = format!("{} | params {:?} | model: {}", short(&r.text), r.params.iter().take(8).collect::<Vec<_>>(), short(&rmodel.text));
        o.count(&format!("structured_{}", stage), 1);
        match &out.verdict {
            Verdict::Ok => {
                parsed_any = true;
                o.label(format!("{}:executed", stage));
                o.count(&format!("structured_{}_executed", stage), 1);
                if r.kind == 'm' {
                    if let Some(res) = &out.result {
                        rows_mem.extend(ids_of_result(res));
                    }
                }
            }
            Verdict::SqlErr(m) => {
                parsed_any = true;
                let mut facts = r.facts.clone();
                facts.non_finite_float |= rmodel.has_inf_default;
                facts.quote_in_string_default |= rmodel.has_quote_default;
                o.violation(classify_sql(stage.trim_start_matches("mem."), m, &facts), format!("{} | {}", short(m), detail));
            }
            Verdict::DataErr(_) => {
                parsed_any = true;
                o.label("fts5-expression-error");
            }
            Verdict::ExecErr => {
                parsed_any = true;
                o.label(format!("{}:exec-err", stage));
            }
            Verdict::SemanticErr => o.label(format!("{}:semantic-err", stage)),
            Verdict::GrammarErr => o.label(format!("{}:grammar-err", stage)),
            Verdict::Panicked => {
                parsed_any |= out.passed_grammar;
            }
        }
        if std::env::var("C14_ERRSTATS").is_ok() {
            if let Some(e) = &out.error {
                let key: String = e.chars().filter(|c| !c.is_ascii_digit()).take(34).collect();
                o.count(&format!("zerr:{}:{}", r.kind, key.replace('\n', " ")), 1);
                if e.contains(" --> ") {
                    eprintln!("GRAMMAR-ERR {} || {}", r.text.replace('\n', " "), e.replace('\n', " ").chars().take(160).collect::<String>());
                }
            }
        }
        let n = panics_to_violations(o, stage, &detail);
        if n == 0 {
            probe_k += 1;
            match world.probe(probe_k) {
                Ok(()) => o.count("probes_ok", 1),
                Err(e) => {
                    if panics_to_violations(o, &format!("{}+probe", stage), &detail) == 0 {
                        o.violation(format!("probe-failed@{}", stage), format!("{} after {}", e, detail));
                    }
                }
            }
        }
        // the same request through the public API of a running instance
        if let Some(w) = instance.as_mut() {
            let room = w.shared_room64.clone();
            let r = render(req, &rmodel, c.model.avoid, &rows_inst, Some(&room));
            let params_json = pvals_to_json(&r.params);
            let step = inst::Step::Api { kind: match r.kind { 'q' => 0, 'm' => 1, _ => 2 }, text: r.text.clone(), params: params_json };
            let before = o.violations.len();
            inst::run_steps(w, std::slice::from_ref(&step), o, &derive_text);
            if o.violations.len() == before && r.kind == 'm' {
                // collect the ids the instance created (for later updates and deletions)
                if let Ok(res) = w.rt.block_on(w.peer.query("query { zzprobe.P(first 1) { id } }", None)) {
                    let _ = res;
                }
            }
            let _ = &mut rows_inst;
        }
    }
    o.nontrivial = parsed_any;
}

fn pvals_to_json(p: &[(String, PVal)]) -> String {
    let mut m = serde_json::Map::new();
    for (k, v) in p {
        let jv = match v {
            PVal::Null => serde_json::Value::Null,
            PVal::Bool(b) => serde_json::Value::Bool(*b),
            PVal::Int(i) => serde_json::Value::from(*i),
            PVal::Float(f) => serde_json::Number::from_f64(*f).map(serde_json::Value::Number).unwrap_or(serde_json::Value::Null),
            PVal::Str(s) => serde_json::Value::String(s.clone()),
        };
        m.insert(k.clone(), jv);
    }
    serde_json::Value::Object(m).to_string()
}

/// text for `inst::Step::Derived`: derived from the grammar of the target against the model of the
/// instance world
fn derive_text(target: u8, dna: &[u8], muts: &[Mutation]) -> String {
    let g = grammars();
    let mut pools = Pools::default();
    for e in ["app.Item", "app.Note", "zzprobe.P", "sys.Room", "sys.Peer"] {
        pools.entities.push(e.to_string());
    }
    for f in ["name", "n", "data", "parent", "kids", "text", "bin", "id", "room_id", "cdate", "mdate", "sys_room", "sys_peer"] {
        pools.fields.push(f.to_string());
    }
    for s in KEYWORDS.iter().chain(DIGIT_FIRST.iter()).chain(UNICODE.iter()) {
        pools.odd.push(s.to_string());
    }
    let (gr, start) = match target % 4 {
        0 => (&g.model, "datamodel"),
        1 => (&g.query, "query"),
        2 => (&g.mutation, "mutation"),
        _ => (&g.deletion, "deletion"),
    };
    let tokens = pest_gen::derive(gr, start, dna, &pools);
    pest_gen::apply_mutations(&tokens, muts)
}

fn run_instance(steps: &[inst::Step], ctx: &RunCtx, o: &mut Outcome) {
    let _ = shared::take_panics();
    let mut w = match inst::World::start(ctx.case_dir("inst"), inst::APP_MODEL) {
        Ok(w) => w,
        Err(e) => {
            o.discard = Some(format!("world-start:{}", e.chars().take(80).collect::<String>()));
            return;
        }
    };
    inst::run_steps(&mut w, steps, o, &derive_text);
    o.count("instance_restarts", w.restarts);
    o.nontrivial = o.counters.get("wire_queries_served").copied().unwrap_or(0) > 0
        || o.labels.iter().any(|l| l.starts_with("row:") || l.starts_with("invite:accepted") || l.starts_with("verify_hash"));
}

fn run_pull(plans: &[inst::AnswerPlan], ctx: &RunCtx, o: &mut Outcome) {
    use dv::world::*;
    let _ = shared::take_panics();
    // the server is a second real instance holding a room the puller is a user of
    begin_case(1);
    let mut w = match inst::World::start(ctx.case_dir("puller"), inst::APP_MODEL) {
        Ok(w) => w,
        Err(e) => {
            o.discard = Some(format!("world-start:{}", e.chars().take(80).collect::<String>()));
            return;
        }
    };
    let full_model = format!("{}\n{}", inst::APP_MODEL, shared::PROBE_MODEL);
    let server = match w.rt.block_on(Peer::start("c14-server", &full_model, ctx.case_dir("server"))) {
        Ok(p) => p,
        Err(e) => {
            o.discard = Some(format!("server-start:{}", e.chars().take(80).collect::<String>()));
            return;
        }
    };
    // the server creates the room (both are users), some rows, a deletion
    let puller_key = w.peer.key64();
    let setup: Result<[u8; 16], String> = w.rt.block_on(async {
        Clock::advance(1);
        let mut p = Parameters::new();
        p.add("admin", server.key64()).unwrap();
        p.add("u0", server.key64()).unwrap();
        p.add("u1", puller_key).unwrap();
        let res = server
            .mutate(
                "mutate { sys.Room{ admin: [{verif_key:$admin}] authorisations:[{ name:\"all\" rights:[{entity:\"*\" mutate_self:true mutate_all:true}] users:[{verif_key:$u0},{verif_key:$u1}] }] } }",
                Some(p),
            )
            .await?;
        let v: serde_json::Value = serde_json::from_str(&res).map_err(|e| e.to_string())?;
        let room64 = v["sys.Room"]["id"].as_str().ok_or("room id")?.to_string();
        Clock::advance(1);
        let mut p = Parameters::new();
        p.add("room", room64.clone()).unwrap();
        let res = server
            .mutate(
                "mutate { app.Item { room_id:$room name:\"root\" kids:[{name:\"k1\"},{name:\"k2\"}] } app.Note { room_id:$room text:\"note\" } }",
                Some(p),
            )
            .await?;
        let ids = ids_of_result(&res);
        Clock::advance(DAY);
        if let Some(last) = ids.last() {
            let mut p = Parameters::new();
            p.add("id", last.clone()).unwrap();
            let _ = server.delete("delete { app.Note { $id } }", Some(p)).await;
        }
        server.fence().await;
        server.recompute().await;
        Ok(uid_of(&room64))
    });
    let room = match setup {
        Ok(r) => r,
        Err(e) => {
            o.discard = Some(format!("server-setup:{}", e.chars().take(80).collect::<String>()));
            return;
        }
    };
    w.shared_room = room;
    inst::run_hostile_pull(&mut w, &server, plans, o);
    o.nontrivial = o.counters.get("hostile_queries_answered").copied().unwrap_or(0) >= 2;
}

// ---------------------------------------------------------------------------------------------
// nesting bombs: a child process parses the text on a thread with the stack of a service thread
// ---------------------------------------------------------------------------------------------

fn bomb_text(b: &BombCase) -> (String, &'static str) {
    let d = b.depth as usize;
    match (b.target % 5, b.shape % 4) {
        (0, _) => (format!("{{ A {{ {} g : A }} }}", (0..d).map(|i| format!("f{} : [A] , ", i)).collect::<String>()), "model:fields"),
        // references that must exist: the generated SQL repeats the sub query (selection + EXISTS)
        (1, 0) => (format!("query {{ Person {{ {} id {} }} }}", "friends {".repeat(d), "}".repeat(d)), "query:sub-entities"),
        (1, 1) => (format!("query {{ Person ({}) {{ id }} }}", "name = \"a\",".repeat(d.min(3000))), "query:filters"),
        (1, 2) => (format!("query {{ {} }}", (0..d.min(3000)).map(|i| format!("a{} : Person {{ id }} ", i)).collect::<String>()), "query:entities"),
        // nullable references: the generated SQL grows linearly with the depth
        (1, _) => (format!("query {{ Person {{ {} id {} }} }}", "pet { owner {".repeat(d / 2 + 1), "}}".repeat(d / 2 + 1)), "query:nullable-sub-entities"),
        (2, 0) => (
            format!("mutate {{ Person {{ name: \"x\" {} {} }} }}", "pet : { name:\"p\" owner: { name:\"o\" ".repeat(d / 2 + 1), "}}".repeat(d / 2 + 1)),
            "mutate:entity-refs",
        ),
        (2, 1) => (format!("mutate {{ Person {{ name: \"x\" {} {} }} }}", "friends: [{ name:\"f\" ".repeat(d), "}]".repeat(d)), "mutate:arrays"),
        (2, 2) => (format!("mutate {{ Person {{ name: \"{}\" }} }}", "\\\\".repeat(d)), "mutate:long-string"),
        (2, _) => (format!("mutate {{ {} }}", (0..d.min(3000)).map(|i| format!("a{} : Pet {{ name:\"p\" }} ", i)).collect::<String>()), "mutate:entities"),
        (3, _) => (format!("delete {{ Person {{ $id friends[{}$x] }} }}", "$a,".repeat(d)), "delete:ids"),
        (_, _) => (format!("{{\"a\":{}1{}}}", "[".repeat(d), "]".repeat(d)), "params:arrays"),
    }
}

const BOMB_MODEL: &str = "{ Person { name: String, pet: Pet nullable, friends: [Person] } Pet { name: String, owner: Person nullable } }";

/// child mode: reads `target shape depth` from the environment, parses, prints the verdict
fn bomb_child() -> ! {
    let spec = std::env::var("C14_BOMB").unwrap_or_default();
    let mut it = spec.split(',').map(|s| s.parse::<u32>().unwrap_or(0));
    let b = BombCase { target: it.next().unwrap_or(0) as u8, shape: it.next().unwrap_or(0) as u8, depth: it.next().unwrap_or(1) };
    let (text, _) = bomb_text(&b);
    shared::install_hook();
    // service threads and tokio workers run with a 2 MiB stack
    let h = std::thread::Builder::new()
        .name("bomb".into())
        .stack_size(2 * 1024 * 1024)
        .spawn(move || {
            let mut w = MemWorld::new(BOMB_MODEL, true).expect("bomb model");
            let verdict = match b.target % 5 {
                0 => format!("{:?}", shared::parse_model_text(&text)),
                1 => format!("{:?}", w.query(&text, &[]).verdict),
                2 => format!("{:?}", w.mutate(&text, &[]).verdict),
                3 => format!("{:?}", w.delete(&text, &[("id".into(), PVal::Str("AAAAAAAAAAAAAAAAAAAAAA".into()))]).verdict),
                _ => format!("{:?}", shared::parse_params_json(&text)),
            };
            verdict.chars().take(120).collect::<String>()
        })
        .unwrap();
    match h.join() {
        Ok(v) => {
            let ps = shared::take_panics();
            if let Some(p) = ps.first() {
                println!("PANIC {}", shared::panic_key(p));
            } else {
                println!("DONE {}", v);
            }
            std::process::exit(0)
        }
        Err(_) => {
            println!("PANIC thread");
            std::process::exit(0)
        }
    }
}

fn run_bomb(b: &BombCase, o: &mut Outcome) {
    let (text, shape) = bomb_text(b);
    o.count("bomb_bytes", text.len() as u64);
    let exe = std::env::current_exe().unwrap();
    // the child gets 3 GB of address space and 20 s: a text of a few hundred bytes that needs
    // more is reported as resource exhaustion
    let child = std::process::Command::new("sh")
        .arg("-c")
        .arg("ulimit -v 3000000; exec \"$0\"")
        .arg(&exe)
        .env("C14_BOMB", format!("{},{},{}", b.target, b.shape, b.depth))
        .env_remove("C14_WRITE_REPLAYS")
        .env_remove("C14_WRITE_WIRE_SEEDS")
        .stdout(std::process::Stdio::piped())
        .stderr(std::process::Stdio::piped())
        .spawn();
    let mut child = match child {
        Ok(c) => c,
        Err(e) => {
            o.discard = Some(format!("bomb-spawn:{}", e));
            return;
        }
    };
    let start = std::time::Instant::now();
    let mut timed_out = false;
    loop {
        match child.try_wait() {
            Ok(Some(_)) => break,
            Ok(None) => {
                if start.elapsed() > std::time::Duration::from_secs(30) {
                    timed_out = true;
                    let _ = child.kill();
                    break;
                }
                std::thread::sleep(std::time::Duration::from_millis(20));
            }
            Err(_) => break,
        }
    }
    let out = match child.wait_with_output() {
        Ok(o) => o,
        Err(e) => {
            o.discard = Some(format!("bomb-wait:{}", e));
            return;
        }
    };
    let stdout = String::from_utf8_lossy(&out.stdout).to_string();
    let stderr = String::from_utf8_lossy(&out.stderr).to_string();
    if timed_out && !(b.target % 5 == 1 && b.shape % 4 == 0) {
        // only the shape whose SQL doubles with every level is expected to run out of time: on
        // a loaded machine anything else that times out is not evidence
        o.discard = Some("bomb-timeout".into());
        return;
    }
    if timed_out || stderr.contains("memory allocation") {
        o.violation(
            format!("resource-exhaustion@bomb.{}", shape),
            format!(
                "a {} byte text (nesting depth {}) {} : {}",
                text.len(),
                b.depth,
                if timed_out { "was not answered within 30 s" } else { "needed more than 3 GB" },
                short(&text)
            ),
        );
        o.nontrivial = true;
        return;
    }
    if out.status.success() {
        if let Some(rest) = stdout.strip_prefix("PANIC ") {
            o.violation(format!("panic:{}@local-text", rest.trim()), format!("{} depth {} ({} bytes)", shape, b.depth, text.len()));
        } else if let Some(i) = stdout.find("SqlErr(\"") {
            let msg = stdout[i + 8..].trim_end().trim_end_matches(')').trim_end_matches('"').to_string();
            o.violation(
                classify_sql(shape.split(':').next().unwrap_or("query"), &msg, &Default::default()),
                format!("{} | a {} byte text (depth {}): {}", msg, text.len(), b.depth, short(&text)),
            );
            o.nontrivial = true;
        } else {
            o.label(format!("bomb:{}:survived", shape));
            if stdout.contains("Ok") || stdout.contains("SemanticErr") || stdout.contains("ExecErr") || stdout.contains("passed_grammar: true") {
                o.nontrivial = true;
            }
        }
    } else {
        let overflow = stderr.contains("overflowed its stack");
        o.violation(
            format!("crash:{}@{}-parser", if overflow { "stack-overflow" } else { "abnormal-exit" }, shape.split(':').next().unwrap_or("?")),
            format!("the process parsing a {} byte text (nesting depth {}) ended with {:?}: {}", text.len(), b.depth, out.status, short(&stderr)),
        );
        o.nontrivial = true;
    }
}

// ---------------------------------------------------------------------------------------------
// the property
// ---------------------------------------------------------------------------------------------

struct C14;
impl Property for C14 {
    type Case = Case;
    const ID: &'static str = "C14";
    const CASE_TIMEOUT_S: u64 = 1800;

    fn plan(tier: Tier) -> Plan {
        match tier {
            Tier::Quick => Plan { shards: 16, cases_per_shard: 220, max_shrink_iters: 300 },
            Tier::Thorough => Plan { shards: 16, cases_per_shard: 2500, max_shrink_iters: 600 },
        }
    }

    fn strategy(tier: Tier) -> BoxedStrategy<Case> {
        match tier {
            Tier::Quick => prop_oneof![
                40 => texts_strategy(60),
                36 => requests_strategy(8, 0.06),
                18 => instance_strategy(8),
                6 => pull_strategy(),
                2 => bomb_strategy(),
            ]
            .boxed(),
            Tier::Thorough => prop_oneof![
                40 => texts_strategy(120),
                36 => requests_strategy(14, 0.06),
                18 => instance_strategy(16),
                6 => pull_strategy(),
                1 => bomb_strategy(),
            ]
            .boxed(),
        }
    }

    fn fixed_cases(tier: Tier) -> Vec<Case> {
        let mut v = Vec::new();
        // every parameter kind for every field type and flavour, as a variable and as a literal,
        // in a mutation and in a filter
        let m = canonical_model();
        let kinds = [PKind::Null, PKind::Bool(true), PKind::Int(3), PKind::Float(1), PKind::Str(0), PKind::Str(4), PKind::Str(7), PKind::Str(9), PKind::Missing];
        for field in 0..18u16 {
            let fi = ((field as u32 * 65536 + 32768) / 20) as u16;
            let mut reqs = Vec::new();
            for k in kinds {
                for var in [true, false] {
                    let val = if var { Val::Var(k) } else { Val::Lit(k) };
                    reqs.push(Req::Mutate(MutReq {
                        name: None,
                        ents: vec![MutEnt { alias: None, ent: 0, id: IdSpec::None, complete: true, fields: vec![MutField { field: fi, val, sub: vec![], sub_id: IdSpec::None, count: 0 }] }],
                    }));
                    reqs.push(Req::Query(QueryReq {
                        name: None,
                        ents: vec![QEnt {
                            alias: None,
                            ent: 0,
                            params: vec![QParam::Filter { target: ((field as u32 * 65536 + 32768) / 24) as u16, op: 0, val }],
                            fields: vec![QField::Scalar { field: ((field as u32 * 65536 + 32768) / 25) as u16, alias: None }],
                        }],
                    }));
                }
            }
            v.push(Case::Requests(ReqCase { model: m.clone(), reqs, via_instance: false }));
        }
        // nesting bombs: depths around what a 2 MiB stack takes
        let depths: &[u32] = match tier {
            Tier::Quick => &[12, 24, 64, 1000, 20000],
            Tier::Thorough => &[12, 24, 40, 64, 300, 1000, 3000, 8000, 20000, 60000],
        };
        for target in 0..5u8 {
            for shape in 0..4u8 {
                if (target == 0 || target == 3 || target == 4) && shape > 0 {
                    continue;
                }
                if target == 1 && shape == 0 {
                    // exponential: only small depths are interesting (see bomb_strategy)
                    continue;
                }
                for d in depths {
                    v.push(Case::Bomb(BombCase { target, shape, depth: *d }));
                }
            }
        }
        if tier == Tier::Thorough {
            for target in ["parse_texts", "wire_decode"] {
                v.push(Case::Fuzz(FuzzCase { target: target.to_string(), seconds: 240, seeded: true }));
                v.push(Case::Fuzz(FuzzCase { target: target.to_string(), seconds: 120, seeded: false }));
            }
        }
        v
    }

    fn run(case: &Case, ctx: &RunCtx) -> Outcome {
        shared::install_hook();
        if std::env::var("DV_TRACE").is_ok() {
            shared::VERBOSE.store(true, std::sync::atomic::Ordering::Relaxed);
        }
        let mut o = Outcome::default();
        match case {
            Case::Texts(c) => {
                o.label("kind:texts");
                run_texts(c, &mut o)
            }
            Case::Requests(c) => {
                o.label(if c.via_instance { "kind:requests+instance" } else { "kind:requests" });
                run_requests(c, ctx, &mut o)
            }
            Case::Instance(steps) => {
                o.label("kind:instance");
                run_instance(steps, ctx, &mut o)
            }
            Case::Pull(plans) => {
                o.label("kind:hostile-pull");
                run_pull(plans, ctx, &mut o)
            }
            Case::Bomb(b) => {
                o.label("kind:bomb");
                run_bomb(b, &mut o)
            }
            Case::Fuzz(f) => {
                o.label("kind:fuzz");
                fuzzrun::run_fuzz(f, ctx, &mut o)
            }
            Case::Artifact { target, hex } => {
                o.label("kind:fuzz-artifact");
                fuzzrun::run_artifact(target, &fuzzrun::unhex(hex), &mut o)
            }
        }
        // anything recorded and not attributed yet
        panics_to_violations(&mut o, "unattributed", "");
        o
    }

    fn rule() -> String {
        "cases are batches of texts derived from the four .pest grammars of the repository (choices driven by generated bytes, identifiers drawn from the generated model, SQL keywords, digit-first, Unicode and long names), mutated at token and byte level, or raw; generated models with structurally valid but odd requests (every parameter kind per field type and flavour, odd identifiers, duplicated aliases, empty selections) executed on the in-memory path and, for a sample, through a running instance; wire queries (structured then damaged, or raw bytes), rows with good/empty/short/long/wrong-type keys and signatures, invitation bytes and signature checks against a running instance, each followed by the fixed probe; the real synchronisation code against a server whose answers are rewritten; nested texts parsed in a child process. Non-trivial = at least one text of the batch passes the pest grammar / one request is valid for grammar and model / one wire value decodes and is served / the pull exchanged at least two queries".to_string()
    }

    fn assumptions() -> Vec<String> {
        vec![
            "the frame readers of network/endpoint.rs (length prefixed reads on QUIC streams) and PeerManager::accept_invite (needs a QUIC endpoint) are not reachable in-process; the decoded values they hand over (QueryProtocol, Answer, Invite) are".into(),
            "engine errors raised by a full text search expression (the argument of search()) are counted, not reported: the statement was accepted, the expression is data".into(),
            "a probe or step that times out without a recorded panic discards the case (probe-timeout)".into(),
            "arithmetic overflow panics exist only with overflow checks (debug builds); they are reported like any panic".into(),
        ]
    }

    fn extra_coverage(_tier: Tier, merged: &Merged) -> BTreeMap<String, serde_json::Value> {
        let mut m = BTreeMap::new();
        let combos: Vec<&String> = merged.counters.keys().filter(|k| k.starts_with("combo:")).collect();
        m.insert("parameter_combinations_seen".to_string(), serde_json::json!(combos.len()));
        m
    }
}

/// writes the seed corpus of the fuzz target `wire_decode`: one valid value per wire type
/// (first byte = type number, see shared::wire::decode_and_check)
fn write_wire_seeds(dir: &str) {
    use discret::verif as dvv;
    use dvv::database::edge::{Edge, EdgeDeletionEntry};
    use dvv::database::node::{Node, NodeDeletionEntry};
    use dvv::database::system_entities::Invite;
    use dvv::synchronisation::{Answer, Query, QueryProtocol, RemoteEvent};
    std::fs::create_dir_all(dir).unwrap();
    let key = shared::signing_key("seed");
    let mut n = 0;
    let mut put = |kind: u8, bytes: Vec<u8>| {
        let mut v = vec![kind];
        v.extend(bytes);
        std::fs::write(format!("{}/seed_{:02}_{:02}", dir, kind, n), v).unwrap();
        n += 1;
    };
    let room = [3u8; 16];
    let queries = vec![
        Query::ProveIdentity(vec![1; 32]),
        Query::HardwareFingerprint(),
        Query::RoomList,
        Query::RoomDefinition(room),
        Query::RoomNode(room),
        Query::RoomLog(room),
        Query::RoomLogAt(room, dv::world::T0),
        Query::EdgeDeletionLog(room, "1.0".into(), dv::world::T0),
        Query::NodeDeletionLog(room, "1.0".into(), dv::world::T0),
        Query::RoomDailyNodes(room, "1.0".into(), dv::world::T0),
        Query::Nodes(room, vec![[1; 16], [2; 16]]),
        Query::Edges(room, vec![([1; 16], 5)]),
        Query::PeersForRoom(room),
    ];
    for (i, q) in queries.into_iter().enumerate() {
        put(0, bincode::serialize(&QueryProtocol { id: i as u64, query: q }).unwrap());
    }
    put(1, bincode::serialize(&Answer { id: 1, success: true, complete: false, serialized: vec![1, 2, 3] }).unwrap());
    put(2, bincode::serialize(&RemoteEvent::RoomDataChanged(room)).unwrap());
    let mut node = Node { id: [1; 16], room_id: Some(room), cdate: 1, mdate: 2, _entity: "1.0".into(), _json: Some("{\"32\":\"x\"}".into()), ..Default::default() };
    node.sign(&key).unwrap();
    put(4, bincode::serialize(&node).unwrap());
    put(10, bincode::serialize(&vec![node.clone(), node.clone()]).unwrap());
    let mut peer = Node { id: [9; 16], room_id: None, cdate: 1, mdate: 2, _entity: "0.4".into(), _json: Some("{\"32\":\"AAAA\",\"33\":\"n\"}".into()), ..Default::default() };
    peer.sign(&key).unwrap();
    put(3, bincode::serialize(&dvv::synchronisation::IdentityAnswer { peer, chall_signature: vec![0; 64] }).unwrap());
    let mut edge = Edge { src: [1; 16], src_entity: "1.0".into(), label: "35".into(), dest: [2; 16], cdate: 3, ..Default::default() };
    edge.sign(&key).unwrap();
    put(5, bincode::serialize(&edge).unwrap());
    put(11, bincode::serialize(&vec![edge.clone()]).unwrap());
    put(6, bincode::serialize(&NodeDeletionEntry::build(room, &node, 7, &key)).unwrap());
    put(12, bincode::serialize(&vec![NodeDeletionEntry::build(room, &node, 7, &key)]).unwrap());
    put(7, bincode::serialize(&EdgeDeletionEntry::build(room, &edge, 7, &key)).unwrap());
    put(13, bincode::serialize(&vec![EdgeDeletionEntry::build(room, &edge, 7, &key)]).unwrap());
    put(8, bincode::serialize(&Invite { invite_id: [4; 16], application: "app".into(), invite_sign: vec![0; 64] }).unwrap());
    put(17, bincode::serialize(&dvv::network::ConnectionInfo { endpoint_id: [1; 16], remote_id: [2; 16], conn_id: [3; 16], meeting_token: [4; 7], peer_verifying_key: vec![1; 33] }).unwrap());
    println!("{} seeds written to {}", n, dir);
}

/// writes the named minimal replay files of the findings (development helper: the files are
/// committed, this is how they were made)
fn write_replays(dir: &str) {
    use inst::{BytesSpec, EntSel, QSpec, RoomSel, RowSpec, Step};
    let art = |text: &str| Case::Artifact { target: "parse_texts".into(), hex: fuzzrun::hex(text.as_bytes()) };
    let no_avoid = Avoid::default();
    let json_model = ModelSpec {
        nss: vec![NsSpec {
            name: None,
            ents: vec![EntSpec {
                name: Ident { cat: 0, ix: 4000 },
                no_fts: false,
                fields: vec![FieldSpec { name: Ident { cat: 0, ix: 24000 }, ty: Ty::Json, modif: Modif::Nullable }],
                index: None,
            }],
        }],
        avoid: no_avoid,
    };
    let mut_json = |val: Val| {
        Case::Requests(ReqCase {
            model: json_model.clone(),
            reqs: vec![Req::Mutate(MutReq {
                name: None,
                ents: vec![MutEnt { alias: None, ent: 0, id: IdSpec::None, complete: true, fields: vec![MutField { field: 0, val, sub: vec![], sub_id: IdSpec::None, count: 0 }] }],
            })],
            via_instance: false,
        })
    };
    let q = |kind: u8, date: u8| Step::Query {
        q: QSpec { kind, id: 1, room: RoomSel::Shared, ent: EntSel::Item, date, ids: vec![], many: 0, challenge: BytesSpec::Good },
        flips: vec![],
        truncate: None,
    };
    let row = |kind: u8, key: BytesSpec, cdate: u8, mdate: u8| {
        Step::Row(RowSpec { kind, signer: 1, key, sig: BytesSpec::Good, room: RoomSel::Shared, ent: EntSel::Item, json: 0, cdate, mdate, target: None, label: 0, binary: None })
    };
    let m = "{ Person { name: String, age: Integer nullable, data: Json nullable, pet: Pet nullable, friends: [Person] } Pet { name: String } }";
    let cases: Vec<(&str, Case)> = vec![
        ("empty-verifying-key-verify-hash", Case::Instance(vec![Step::VerifyHash { sig: BytesSpec::Good, key: BytesSpec::Empty }])),
        ("empty-verifying-key-node-row", Case::Instance(vec![row(0, BytesSpec::Empty, 0, 0)])),
        ("json-field-null-variable", mut_json(Val::Var(PKind::Null))),
        ("json-field-null-literal", mut_json(Val::Lit(PKind::Null))),
        ("json-field-null-variable-through-instance", {
            match mut_json(Val::Var(PKind::Null)) {
                Case::Requests(mut r) => {
                    r.via_instance = true;
                    Case::Requests(r)
                }
                c => c,
            }
        }),
        ("json-field-null-literal-through-instance", {
            match mut_json(Val::Lit(PKind::Null)) {
                Case::Requests(mut r) => {
                    r.via_instance = true;
                    Case::Requests(r)
                }
                c => c,
            }
        }),
        ("empty-verifying-key-room-node-answer", {
            use discret::verif as dvv;
            let node = dvv::database::node::Node { id: [1; 16], room_id: None, cdate: 1, mdate: 1, _entity: "0.0".into(), _json: Some("{}".into()), _signature: vec![0; 64], ..Default::default() };
            let rn = dvv::database::room_node::RoomNode { node, last_modified: 1, admin_edges: vec![], admin_nodes: vec![], auth_edges: vec![], auth_nodes: vec![] };
            let mut bytes = vec![9u8];
            bytes.extend(bincode::serialize(&rn).unwrap());
            Case::Artifact { target: "wire_decode".into(), hex: fuzzrun::hex(&bytes) }
        }),
        ("wire-date-out-of-range", Case::Instance(vec![q(7, 6)])),
        ("wire-date-next-day-overflow", Case::Instance(vec![q(9, 8)])),
        ("signed-deletion-record-date-out-of-range", Case::Instance(vec![row(2, BytesSpec::Good, 6, 0)])),
        ("signed-deletion-record-next-day-overflow", Case::Instance(vec![row(2, BytesSpec::Good, 8, 0)])),
        ("reserved-word-as-alias", art(&format!("{}\0query {{ order : Person {{ name }} }}", m))),
        ("reserved-word-as-field-name", art("{ Person { name: String, group: Person nullable } }\0query { Person { name group { name } } }")),
        ("digit-first-alias", art(&format!("{}\0query {{ 1 : Person {{ name }} }}", m))),
        ("alias-starting-with-a-dot", art(&format!("{}\0query {{ . : Person {{ name }} }}", m))),
        ("skip-without-first", art(&format!("{}\0query {{ Person (skip 1) {{ name }} }}", m))),
        ("json-field-default", art("{ Person { name: String, data: Json default \"{}\" } }\0query { Person { d : data->$ } }")),
        ("non-finite-float-literal", art("{ Person { w: Float nullable } }\0query { Person (w > 1.0e999) { w } }")),
        ("quote-in-string-default", art("{ Person { name: String default \"it's\" } }\0query { Person (name = \"a\") { name } }")),
        ("filter-on-system-reference", art(&format!("{}\0query {{ Person (sys_peer = null) {{ name }} }}", m))),
        ("literal-filter-then-json-filter", art(&format!("{}\0query {{ Person (age = 1, data->$.a = 2) {{ name }} }}", m))),
        ("system-column-in-sub-entity-order", art(&format!("{}\0query {{ Person {{ name friends(order_by(cdate asc)) {{ name }} }} }}", m))),
        ("aggregate-on-binary-system-field", art(&format!("{}\0mutate {{ Person {{ name: \"a\" }} }}\0query {{ Person {{ m : max(verifying_key) }} }}", m))),
        ("reference-filter-in-aggregate-query", art(&format!("{}\0query {{ Person (pet = null) {{ c : count() }} }}", m))),
        (
            "filter-on-alias-of-system-field",
            Case::Requests(ReqCase {
                model: json_model.clone(),
                reqs: vec![Req::Query(QueryReq {
                    name: None,
                    ents: vec![QEnt {
                        alias: None,
                        ent: 0,
                        params: vec![QParam::Filter { target: 60000, op: 0, val: Val::Good { var: true, salt: 0 } }],
                        fields: vec![QField::Scalar { field: 9000, alias: Some(Ident { cat: 0, ix: 60000 }) }],
                    }],
                })],
                via_instance: false,
            }),
        ),
        ("five-required-sub-entities", Case::Bomb(BombCase { target: 1, shape: 0, depth: 5 })),
        ("twelve-nullable-sub-entities", Case::Bomb(BombCase { target: 1, shape: 3, depth: 10 })),
        ("thousand-filters", Case::Bomb(BombCase { target: 1, shape: 1, depth: 1000 })),
        ("exponential-sql-20-levels", Case::Bomb(BombCase { target: 1, shape: 0, depth: 20 })),
        ("query-nesting-stack-overflow", Case::Bomb(BombCase { target: 1, shape: 3, depth: 900 })),
        ("mutation-reference-nesting-stack-overflow", Case::Bomb(BombCase { target: 2, shape: 0, depth: 900 })),
        ("mutation-array-nesting-stack-overflow", Case::Bomb(BombCase { target: 2, shape: 1, depth: 1000 })),
    ];
    let ctx = RunCtx { tier: Tier::Quick, replay: true, scratch: std::path::PathBuf::from("/dev/shm/dv/c14replays"), case_index: 0, known: vec![] };
    std::fs::create_dir_all(&ctx.scratch).unwrap();
    std::fs::create_dir_all(dir).unwrap();
    for (name, case) in cases {
        let out = C14::run(&case, &ctx);
        let (sig, detail) = match out.violations.first() {
            Some(v) => (v.signature.clone(), v.detail.clone()),
            None => ("NONE".to_string(), format!("labels {:?}", out.labels)),
        };
        let all: Vec<&String> = out.violations.iter().map(|v| &v.signature).collect();
        println!("{:45} {:?}", name, all);
        let file = serde_json::json!({ "property": "C14", "signature": sig, "detail": detail, "seed": 0, "case": case });
        std::fs::write(format!("{}/{}.json", dir, name), serde_json::to_string_pretty(&file).unwrap()).unwrap();
    }
    let _ = std::fs::remove_dir_all(&ctx.scratch);
}

fn main() {
    if let Ok(dir) = std::env::var("C14_WRITE_REPLAYS") {
        write_replays(&dir);
        return;
    }
    if std::env::var("C14_BOMB").is_ok() {
        bomb_child();
    }
    if let Ok(dir) = std::env::var("C14_WRITE_WIRE_SEEDS") {
        write_wire_seeds(&dir);
        return;
    }
    main_for::<C14>()
}
