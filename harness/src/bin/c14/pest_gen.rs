//! A reader of `.pest` grammar files and a generator of texts derived from them.
//!
//! The grammars are read from the repository at run time (`/repo/src/database/query_language/*.pest`),
//! so a change of a grammar changes what is generated. Generation is driven by a byte string
//! (`dna`, part of the case): every choice, repetition count and palette pick consumes one byte;
//! when the bytes run out the shortest derivation is taken, so a shorter `dna` is a smaller text.

use std::collections::BTreeMap;

#[derive(Clone, Debug)]
pub enum Expr {
    Str(String),
    Insens(String),
    Ident(String),
    Range(char, char),
    Seq(Vec<Expr>),
    Choice(Vec<Expr>),
    Opt(Box<Expr>),
    Star(Box<Expr>),
    Plus(Box<Expr>),
    Repeat(Box<Expr>, u32),
    Not(Box<Expr>),
    And(Box<Expr>),
}

#[derive(Clone, Debug)]
pub struct Rule {
    pub name: String,
    /// ' ' normal, '_' silent, '@' atomic, '$' compound atomic, '!' non atomic
    pub modifier: char,
    pub expr: Expr,
}

#[derive(Clone, Debug, Default)]
pub struct Grammar {
    pub rules: BTreeMap<String, Rule>,
    pub min_len: BTreeMap<String, usize>,
}

struct P<'a> {
    s: &'a [char],
    i: usize,
}

impl<'a> P<'a> {
    fn ws(&mut self) {
        loop {
            while self.i < self.s.len() && self.s[self.i].is_whitespace() {
                self.i += 1;
            }
            if self.i + 1 < self.s.len() && self.s[self.i] == '/' && self.s[self.i + 1] == '/' {
                while self.i < self.s.len() && self.s[self.i] != '\n' {
                    self.i += 1;
                }
                continue;
            }
            if self.i + 1 < self.s.len() && self.s[self.i] == '/' && self.s[self.i + 1] == '*' {
                self.i += 2;
                while self.i + 1 < self.s.len() && !(self.s[self.i] == '*' && self.s[self.i + 1] == '/') {
                    self.i += 1;
                }
                self.i += 2;
                continue;
            }
            break;
        }
    }
    fn peek(&mut self) -> Option<char> {
        self.ws();
        self.s.get(self.i).copied()
    }
    fn eat(&mut self, c: char) -> bool {
        if self.peek() == Some(c) {
            self.i += 1;
            true
        } else {
            false
        }
    }
    fn ident(&mut self) -> Option<String> {
        self.ws();
        let st = self.i;
        while self.i < self.s.len() && (self.s[self.i].is_ascii_alphanumeric() || self.s[self.i] == '_') {
            self.i += 1;
        }
        if st == self.i {
            None
        } else {
            Some(self.s[st..self.i].iter().collect())
        }
    }
    fn string(&mut self) -> Result<String, String> {
        // opening quote already seen by peek
        self.i += 1;
        let mut out = String::new();
        while self.i < self.s.len() {
            let c = self.s[self.i];
            self.i += 1;
            match c {
                '"' => return Ok(out),
                '\\' => {
                    let n = *self.s.get(self.i).ok_or("escape at end")?;
                    self.i += 1;
                    match n {
                        'n' => out.push('\n'),
                        'r' => out.push('\r'),
                        't' => out.push('\t'),
                        '0' => out.push('\0'),
                        '\\' => out.push('\\'),
                        '"' => out.push('"'),
                        '\'' => out.push('\''),
                        other => {
                            out.push('\\');
                            out.push(other)
                        }
                    }
                }
                c => out.push(c),
            }
        }
        Err("unterminated string".into())
    }
    fn choice(&mut self) -> Result<Expr, String> {
        let mut alts = vec![self.seq()?];
        while self.eat('|') {
            alts.push(self.seq()?);
        }
        Ok(if alts.len() == 1 { alts.pop().unwrap() } else { Expr::Choice(alts) })
    }
    fn seq(&mut self) -> Result<Expr, String> {
        let mut items = vec![self.term()?];
        while self.eat('~') {
            items.push(self.term()?);
        }
        Ok(if items.len() == 1 { items.pop().unwrap() } else { Expr::Seq(items) })
    }
    fn term(&mut self) -> Result<Expr, String> {
        if self.eat('!') {
            return Ok(Expr::Not(Box::new(self.term()?)));
        }
        if self.eat('&') {
            return Ok(Expr::And(Box::new(self.term()?)));
        }
        let mut e = match self.peek() {
            Some('(') => {
                self.i += 1;
                let e = self.choice()?;
                if !self.eat(')') {
                    return Err(format!("expected ) at {}", self.i));
                }
                e
            }
            Some('"') => Expr::Str(self.string()?),
            Some('^') => {
                self.i += 1;
                if self.peek() != Some('"') {
                    return Err("expected string after ^".into());
                }
                Expr::Insens(self.string()?)
            }
            Some('\'') => {
                // 'a'..'z'
                let a = self.s[self.i + 1];
                self.i += 3;
                self.ws();
                self.i += 2; // ..
                self.ws();
                let b = self.s[self.i + 1];
                self.i += 3;
                Expr::Range(a, b)
            }
            _ => match self.ident() {
                Some(id) => Expr::Ident(id),
                None => return Err(format!("unexpected input at {}", self.i)),
            },
        };
        loop {
            match self.peek() {
                Some('*') => {
                    self.i += 1;
                    e = Expr::Star(Box::new(e));
                }
                Some('+') => {
                    self.i += 1;
                    e = Expr::Plus(Box::new(e));
                }
                Some('?') => {
                    self.i += 1;
                    e = Expr::Opt(Box::new(e));
                }
                Some('{') => {
                    // repetition {n} or {n,m}: only when followed by a digit (a rule body never is)
                    let save = self.i;
                    self.i += 1;
                    self.ws();
                    let st = self.i;
                    while self.i < self.s.len() && self.s[self.i].is_ascii_digit() {
                        self.i += 1;
                    }
                    if st == self.i {
                        self.i = save;
                        break;
                    }
                    let n: u32 = self.s[st..self.i].iter().collect::<String>().parse().unwrap_or(1);
                    while self.i < self.s.len() && self.s[self.i] != '}' {
                        self.i += 1;
                    }
                    self.i += 1;
                    e = Expr::Repeat(Box::new(e), n);
                }
                _ => break,
            }
        }
        Ok(e)
    }
}

impl Grammar {
    pub fn parse(text: &str) -> Result<Grammar, String> {
        let chars: Vec<char> = text.chars().collect();
        let mut p = P { s: &chars, i: 0 };
        let mut g = Grammar::default();
        loop {
            if p.peek().is_none() {
                break;
            }
            let name = p.ident().ok_or_else(|| format!("rule name expected at {}", p.i))?;
            if !p.eat('=') {
                return Err(format!("= expected after {}", name));
            }
            let mut modifier = ' ';
            for m in ['_', '@', '$', '!'] {
                if p.eat(m) {
                    modifier = m;
                    break;
                }
            }
            if !p.eat('{') {
                return Err(format!("{{ expected in rule {}", name));
            }
            let expr = p.choice()?;
            if !p.eat('}') {
                return Err(format!("}} expected at the end of rule {} (pos {})", name, p.i));
            }
            g.rules.insert(name.clone(), Rule { name, modifier, expr });
        }
        g.compute_min();
        Ok(g)
    }

    pub fn load(file: &str) -> Result<Grammar, String> {
        let path = format!("/repo/src/database/query_language/{}", file);
        let text = std::fs::read_to_string(&path).map_err(|e| format!("{}: {}", path, e))?;
        Grammar::parse(&text)
    }

    fn compute_min(&mut self) {
        const INF: usize = 1 << 30;
        for k in self.rules.keys() {
            self.min_len.insert(k.clone(), INF);
        }
        loop {
            let mut changed = false;
            let names: Vec<String> = self.rules.keys().cloned().collect();
            for n in names {
                let v = self.min_of(&self.rules[&n].expr);
                if v < self.min_len[&n] {
                    self.min_len.insert(n, v);
                    changed = true;
                }
            }
            if !changed {
                break;
            }
        }
    }

    fn min_of(&self, e: &Expr) -> usize {
        const INF: usize = 1 << 30;
        match e {
            Expr::Str(s) | Expr::Insens(s) => s.chars().count().max(1),
            Expr::Range(_, _) => 1,
            Expr::Ident(id) => match self.min_len.get(id) {
                Some(v) => *v,
                None => match id.as_str() {
                    "SOI" | "EOI" => 0,
                    _ => 1,
                },
            },
            Expr::Seq(v) => v.iter().map(|x| self.min_of(x)).fold(0usize, |a, b| (a + b).min(INF)),
            Expr::Choice(v) => v.iter().map(|x| self.min_of(x)).min().unwrap_or(0),
            Expr::Opt(_) | Expr::Star(_) | Expr::Not(_) | Expr::And(_) => 0,
            Expr::Plus(x) => self.min_of(x),
            Expr::Repeat(x, n) => (self.min_of(x) * (*n as usize)).min(INF),
        }
    }
}

/// names and palettes the generator substitutes for some rules (so that a useful share of the
/// texts refers to things that exist in the model they are parsed against)
#[derive(Clone, Debug, Default)]
pub struct Pools {
    pub entities: Vec<String>,
    pub fields: Vec<String>,
    pub odd: Vec<String>,
    pub variables: Vec<String>,
}

pub struct Gen<'a> {
    pub g: &'a Grammar,
    pub dna: &'a [u8],
    pub pos: usize,
    pub pools: &'a Pools,
    pub out: Vec<String>,
    pub max_tokens: usize,
    pub max_depth: usize,
}

const LETTERS: &[&str] = &["a", "b", "Z", "x", "é", "名", "Ω", "ß", "İ", "K", "ǅ", "ａ"];
const NUMBERS: &[&str] = &["0", "1", "9", "٣", "²", "Ⅷ", "५", "𝟗"];
const ANYS: &[&str] = &["a", " ", "'", "%", "\u{0}", "é", "{", "}", "\\", "/", "\n", "$", "\u{202e}", "😀", ";", "-"];
const STRINGS: &[&str] = &[
    "",
    "x",
    "hello world",
    "it's",
    "\\\"q\\\"",
    "{\\\"a\\\":1}",
    "[1,2,3]",
    "{}",
    "emV0emV0",
    "AAAAAAAAAAAAAAAAAAAAAA",
    "\\u0041\\n\\t",
    "名前 ☃",
    "\\\\",
    "' OR 1=1 --",
    "a\u{0}b",
    "AND",
    "\\\"unbalanced",
    "null",
];
const INTS: &[&str] = &["0", "1", "-1", "42", "9223372036854775807", "-9223372036854775808", "9223372036854775808", "00012", "99999999999999999999999"];
const UINTS: &[&str] = &["0", "1", "10", "9223372036854775807", "9223372036854775808", "18446744073709551616", "007"];
const FLOATS: &[&str] = &["0.0", "1.5", "-2.25", "1.", "0.1e-7", "1.0e308", "1.0e309", "-1.0e999", "123456789012345678901234567890.0", "0.00000000000000000000000000001"];

impl<'a> Gen<'a> {
    pub fn new(g: &'a Grammar, dna: &'a [u8], pools: &'a Pools) -> Gen<'a> {
        Gen { g, dna, pos: 0, pools, out: Vec::new(), max_tokens: 400, max_depth: 40 }
    }

    fn next(&mut self) -> u8 {
        let b = self.dna.get(self.pos).copied().unwrap_or(0);
        self.pos += 1;
        b
    }
    fn exhausted(&self) -> bool {
        self.pos >= self.dna.len() || self.out.len() >= self.max_tokens
    }
    fn pick<'b>(&mut self, v: &'b [&'b str]) -> &'b str {
        let b = self.next() as usize;
        v[b % v.len()]
    }
    fn emit(&mut self, s: &str) {
        self.out.push(s.to_string());
    }

    /// separator between two elements of a non atomic sequence
    fn sep(&mut self) {
        let b = self.next();
        let s = match b % 16 {
            0 => "",
            1 => "\n",
            2 => "\t",
            3 => "  ",
            4 => " //c\n",
            5 => "\r\n",
            _ => " ",
        };
        self.out.push(s.to_string());
    }

    pub fn rule(&mut self, name: &str, atomic: bool, depth: usize) {
        // substitutions
        match name {
            "identifier" | "namespace_entity" => {
                let b = self.next();
                if b % 8 != 0 {
                    let pool: &Vec<String> = if name == "namespace_entity" {
                        if b % 8 <= 5 { &self.pools.entities } else { &self.pools.odd }
                    } else if b % 8 <= 4 {
                        &self.pools.fields
                    } else if b % 8 == 5 {
                        &self.pools.entities
                    } else {
                        &self.pools.odd
                    };
                    if !pool.is_empty() {
                        let i = self.next() as usize;
                        let s = pool[i % pool.len()].clone();
                        self.out.push(s);
                        return;
                    }
                }
            }
            "variable" => {
                let b = self.next();
                if b % 4 != 0 && !self.pools.variables.is_empty() {
                    let i = self.next() as usize;
                    let s = format!("${}", self.pools.variables[i % self.pools.variables.len()]);
                    self.out.push(s);
                    return;
                }
            }
            "inner" => {
                let b = self.next();
                if b % 4 != 0 {
                    let s = self.pick(STRINGS).to_string();
                    self.out.push(s);
                    return;
                }
            }
            "integer" => {
                let b = self.next();
                if b % 2 == 0 {
                    let s = self.pick(INTS).to_string();
                    self.out.push(s);
                    return;
                }
            }
            "unsigned_int" | "json_array_selector" => {
                let b = self.next();
                if b % 2 == 0 {
                    let s = self.pick(UINTS).to_string();
                    self.out.push(s);
                    return;
                }
            }
            "float" => {
                let b = self.next();
                if b % 2 == 0 {
                    let s = self.pick(FLOATS).to_string();
                    self.out.push(s);
                    return;
                }
            }
            _ => {}
        }
        let rule = match self.g.rules.get(name) {
            Some(r) => r.clone(),
            None => {
                self.builtin(name);
                return;
            }
        };
        let atomic = match rule.modifier {
            '@' | '$' => true,
            '!' => false,
            _ => atomic,
        };
        self.expr(&rule.expr, atomic, depth + 1);
    }

    fn builtin(&mut self, name: &str) {
        match name {
            "SOI" | "EOI" => {}
            "ANY" => {
                let s = self.pick(ANYS).to_string();
                self.out.push(s)
            }
            "NEWLINE" => self.emit("\n"),
            "LETTER" | "ASCII_ALPHA" | "ALPHABETIC" => {
                let s = self.pick(LETTERS).to_string();
                self.out.push(s)
            }
            "NUMBER" => {
                let s = self.pick(NUMBERS).to_string();
                self.out.push(s)
            }
            "ASCII_DIGIT" => {
                let b = self.next();
                self.out.push(((b'0' + b % 10) as char).to_string())
            }
            "ASCII_NONZERO_DIGIT" => {
                let b = self.next();
                self.out.push(((b'1' + b % 9) as char).to_string())
            }
            "ASCII_HEX_DIGIT" => {
                let b = self.next() as usize;
                self.out.push("0123456789abcdefABCDEF".chars().nth(b % 22).unwrap().to_string())
            }
            "ASCII_ALPHANUMERIC" => self.emit("a"),
            "WHITESPACE" => self.emit(" "),
            "COMMENT" => self.emit("//c\n"),
            other => self.emit(other),
        }
    }

    fn minimal(&self, depth: usize) -> bool {
        self.exhausted() || depth > self.max_depth
    }

    pub fn expr(&mut self, e: &Expr, atomic: bool, depth: usize) {
        match e {
            Expr::Str(s) => self.emit(s),
            Expr::Insens(s) => {
                let b = self.next();
                let t = match b % 4 {
                    0 => s.to_uppercase(),
                    1 => {
                        let mut up = true;
                        s.chars()
                            .map(|c| {
                                up = !up;
                                if up { c.to_ascii_uppercase() } else { c.to_ascii_lowercase() }
                            })
                            .collect()
                    }
                    _ => s.clone(),
                };
                self.out.push(t)
            }
            Expr::Range(a, b) => {
                let span = (*b as u32).saturating_sub(*a as u32) + 1;
                let k = self.next() as u32 % span;
                self.out.push(char::from_u32(*a as u32 + k).unwrap_or(*a).to_string())
            }
            Expr::Ident(id) => self.rule(id, atomic, depth),
            Expr::Seq(items) => {
                let mut forbidden: Vec<String> = Vec::new();
                for (i, it) in items.iter().enumerate() {
                    if let Expr::Not(inner) = it {
                        collect_literals(inner, &mut forbidden);
                        continue;
                    }
                    if let Expr::And(_) = it {
                        continue;
                    }
                    if i > 0 && !atomic {
                        self.sep();
                    }
                    let mark = self.out.len();
                    self.expr(it, atomic, depth + 1);
                    if !forbidden.is_empty() {
                        let produced: String = self.out[mark..].concat();
                        if forbidden.iter().any(|f| produced.starts_with(f.as_str())) {
                            self.out.truncate(mark);
                            self.out.push("a".to_string());
                        }
                        forbidden.clear();
                    }
                }
            }
            Expr::Choice(alts) => {
                let ix = if self.minimal(depth) {
                    let mut best = 0;
                    let mut best_v = usize::MAX;
                    for (i, a) in alts.iter().enumerate() {
                        let v = self.g.min_of(a);
                        if v < best_v {
                            best_v = v;
                            best = i;
                        }
                    }
                    best
                } else {
                    self.next() as usize % alts.len()
                };
                self.expr(&alts[ix], atomic, depth + 1)
            }
            Expr::Opt(x) => {
                if !self.minimal(depth) && self.next() % 2 == 1 {
                    self.expr(x, atomic, depth + 1)
                }
            }
            Expr::Star(x) => {
                let n = if self.minimal(depth) { 0 } else { self.next() % 4 };
                for i in 0..n {
                    if i > 0 && !atomic {
                        self.sep();
                    }
                    self.expr(x, atomic, depth + 1)
                }
            }
            Expr::Plus(x) => {
                let n = if self.minimal(depth) { 1 } else { 1 + self.next() % 3 };
                for i in 0..n {
                    if i > 0 && !atomic {
                        self.sep();
                    }
                    self.expr(x, atomic, depth + 1)
                }
            }
            Expr::Repeat(x, n) => {
                for _ in 0..*n {
                    self.expr(x, atomic, depth + 1)
                }
            }
            Expr::Not(_) | Expr::And(_) => {}
        }
    }
}

fn collect_literals(e: &Expr, out: &mut Vec<String>) {
    match e {
        Expr::Str(s) | Expr::Insens(s) => out.push(s.clone()),
        Expr::Ident(id) if id == "NEWLINE" => {
            out.push("\n".into());
            out.push("\r".into())
        }
        Expr::Seq(v) => {
            if let Some(f) = v.first() {
                collect_literals(f, out)
            }
        }
        Expr::Choice(v) => {
            for x in v {
                collect_literals(x, out)
            }
        }
        _ => {}
    }
}

/// tokens of a text derived from `start`
pub fn derive(g: &Grammar, start: &str, dna: &[u8], pools: &Pools) -> Vec<String> {
    let mut gen = Gen::new(g, dna, pools);
    gen.rule(start, false, 0);
    gen.out.retain(|t| !t.is_empty());
    gen.out
}

// ---------------------------------------------------------------------------------------------
// mutations of a token list
// ---------------------------------------------------------------------------------------------

#[derive(Clone, Debug, serde::Serialize, serde::Deserialize)]
pub enum Mutation {
    DelTok(u16),
    DupTok(u16),
    SwapTok(u16, u16),
    /// repeat one token `n` times (1..=64)
    RepeatTok(u16, u8),
    /// xor one byte of the final text
    FlipByte(u16, u8),
    /// cut the final text at this position (scaled to the length)
    Truncate(u16),
    /// insert a raw fragment in front of a token
    Insert(u16, String),
    /// wrap: insert `depth` times `open` at a token and `depth` times `close` after it
    Nest(u16, u8, u8),
}

pub const NEST_PAIRS: &[(&str, &str)] = &[
    ("{", "}"),
    ("a{", "}"),
    ("a:{", "}"),
    ("a:[{", "}]"),
    ("(", ")"),
    ("[", "]"),
    ("{a{", "}}"),
    ("\"", "\""),
];

fn scale(i: u16, len: usize) -> usize {
    if len == 0 {
        0
    } else {
        ((i as usize) * len) >> 16
    }
}

pub fn apply_mutations(tokens: &[String], muts: &[Mutation]) -> String {
    let mut toks: Vec<String> = tokens.to_vec();
    let mut byte_ops: Vec<&Mutation> = Vec::new();
    for m in muts {
        match m {
            Mutation::DelTok(i) => {
                if !toks.is_empty() {
                    let k = scale(*i, toks.len());
                    toks.remove(k);
                }
            }
            Mutation::DupTok(i) => {
                if !toks.is_empty() {
                    let k = scale(*i, toks.len());
                    let t = toks[k].clone();
                    toks.insert(k, t);
                }
            }
            Mutation::SwapTok(a, b) => {
                if !toks.is_empty() {
                    let (x, y) = (scale(*a, toks.len()), scale(*b, toks.len()));
                    toks.swap(x, y);
                }
            }
            Mutation::RepeatTok(i, n) => {
                if !toks.is_empty() {
                    let k = scale(*i, toks.len());
                    let t = toks[k].clone();
                    let n = (*n % 64) as usize + 1;
                    for _ in 0..n {
                        toks.insert(k, t.clone());
                    }
                }
            }
            Mutation::Insert(i, s) => {
                let k = scale(*i, toks.len() + 1);
                toks.insert(k.min(toks.len()), s.clone());
            }
            Mutation::Nest(i, pair, depth) => {
                let k = scale(*i, toks.len() + 1).min(toks.len());
                let (open, close) = NEST_PAIRS[*pair as usize % NEST_PAIRS.len()];
                let d = *depth as usize % 97 + 1;
                let opens = open.repeat(d);
                let closes = close.repeat(d);
                if k < toks.len() {
                    toks.insert(k + 1, closes);
                } else {
                    toks.push(closes);
                }
                toks.insert(k, opens);
            }
            Mutation::FlipByte(_, _) | Mutation::Truncate(_) => byte_ops.push(m),
        }
    }
    let mut bytes: Vec<u8> = toks.concat().into_bytes();
    for m in byte_ops {
        match m {
            Mutation::FlipByte(i, x) => {
                if !bytes.is_empty() {
                    let k = scale(*i, bytes.len());
                    bytes[k] ^= if *x == 0 { 0x20 } else { *x };
                }
            }
            Mutation::Truncate(i) => {
                let k = scale(*i, bytes.len() + 1);
                bytes.truncate(k);
            }
            _ => {}
        }
    }
    String::from_utf8_lossy(&bytes).into_owned()
}
