//! Structured generator: a model that is valid by construction and requests (mutations,
//! queries, deletions) written against it. Everything is plain data (indices into tables), the
//! texts and parameter sets are rendered at run time.

use crate::shared::{PVal, SqlFacts};
use dv::engine::pick;
use proptest::prelude::*;
use serde::{Deserialize, Serialize};

// ---------------------------------------------------------------------------------------------
// identifiers allowed by the grammar: (LETTER | NUMBER | "_")+
// ---------------------------------------------------------------------------------------------

pub const PLAIN: &[&str] = &[
    "name", "Person", "title", "age", "a", "b1", "Pet", "owner", "data", "score", "flag", "blob", "meta", "friends",
    "parent", "child", "tags", "note", "item", "x_y", "Thing", "w",
];
pub const KEYWORDS: &[&str] = &[
    "select", "order", "group", "index", "table", "from", "where", "join", "on", "as", "and", "or", "not", "null", "is",
    "in", "case", "when", "then", "else", "end", "limit", "offset", "by", "having", "union", "values", "insert", "delete",
    "update", "create", "drop", "exists", "distinct", "all", "left", "natural", "cross", "inner", "outer", "using",
    "default", "primary", "key", "unique", "check", "references", "value", "rowid", "rank", "text", "first", "skip",
    "search", "nullable", "query", "mutate", "before", "after", "order_by", "true", "false", "Select", "ORDER", "count",
    "avg", "sum", "max", "min", "desc", "asc", "set", "to", "if", "no", "of", "do", "row", "with", "match", "like", "glob",
    "between", "collate", "escape", "isnull", "notnull", "full", "right", "window", "over", "filter", "returning",
];
pub const DIGIT_FIRST: &[&str] = &["1", "007a", "9lives", "0", "42x", "1e5", "0x10", "3_"];
pub const UNICODE: &[&str] = &["été", "名前", "Ωmega", "١٢٣", "²", "Ⅷ", "ß", "İ", "K", "ǅ", "ａｂ", "日本語テキスト", "é1", "५a"];

#[derive(Clone, Copy, Debug, Serialize, Deserialize, PartialEq, Eq)]
pub struct Ident {
    /// 0 plain, 1 keyword, 2 digit first, 3 unicode, 4 long
    pub cat: u8,
    pub ix: u16,
}

pub fn ident_text(id: Ident) -> String {
    match id.cat % 5 {
        0 => PLAIN[pick(id.ix, PLAIN.len())].to_string(),
        1 => KEYWORDS[pick(id.ix, KEYWORDS.len())].to_string(),
        2 => DIGIT_FIRST[pick(id.ix, DIGIT_FIRST.len())].to_string(),
        3 => UNICODE[pick(id.ix, UNICODE.len())].to_string(),
        _ => {
            let n = 64 + pick(id.ix, 4000);
            let mut s = String::from("L");
            for _ in 0..n {
                s.push('o');
            }
            s
        }
    }
}

pub fn ident_strategy(odd: bool) -> BoxedStrategy<Ident> {
    if odd {
        prop_oneof![
            4 => any::<u16>().prop_map(|ix| Ident { cat: 0, ix }),
            3 => any::<u16>().prop_map(|ix| Ident { cat: 1, ix }),
            1 => any::<u16>().prop_map(|ix| Ident { cat: 2, ix }),
            2 => any::<u16>().prop_map(|ix| Ident { cat: 3, ix }),
            1 => any::<u16>().prop_map(|ix| Ident { cat: 4, ix }),
        ]
        .boxed()
    } else {
        any::<u16>().prop_map(|ix| Ident { cat: 0, ix }).boxed()
    }
}

fn is_model_reserved(s: &str) -> bool {
    matches!(s.to_lowercase().as_str(), "boolean" | "float" | "integer" | "string" | "base64" | "json")
}

// ---------------------------------------------------------------------------------------------
// model
// ---------------------------------------------------------------------------------------------

#[derive(Clone, Copy, Debug, Serialize, Deserialize, PartialEq, Eq)]
pub enum Ty {
    Integer,
    Float,
    Boolean,
    String,
    Base64,
    Json,
    Entity(u16),
    Array(u16),
}
impl Ty {
    pub fn name(&self) -> &'static str {
        match self {
            Ty::Integer => "Integer",
            Ty::Float => "Float",
            Ty::Boolean => "Boolean",
            Ty::String => "String",
            Ty::Base64 => "Base64",
            Ty::Json => "Json",
            Ty::Entity(_) => "Entity",
            Ty::Array(_) => "Array",
        }
    }
    pub fn is_ref(&self) -> bool {
        matches!(self, Ty::Entity(_) | Ty::Array(_))
    }
}

#[derive(Clone, Copy, Debug, Serialize, Deserialize, PartialEq, Eq)]
pub enum Modif {
    Plain,
    Nullable,
    Default(u8),
}

#[derive(Clone, Debug, Serialize, Deserialize)]
pub struct FieldSpec {
    pub name: Ident,
    pub ty: Ty,
    pub modif: Modif,
}
#[derive(Clone, Debug, Serialize, Deserialize)]
pub struct EntSpec {
    pub name: Ident,
    pub no_fts: bool,
    pub fields: Vec<FieldSpec>,
    pub index: Option<Vec<u16>>,
}
#[derive(Clone, Debug, Serialize, Deserialize)]
pub struct NsSpec {
    pub name: Option<Ident>,
    pub ents: Vec<EntSpec>,
}
#[derive(Clone, Debug, Serialize, Deserialize)]
pub struct ModelSpec {
    pub nss: Vec<NsSpec>,
    /// generator switches that keep the search going past known findings (counted when they
    /// change what is rendered)
    #[serde(default)]
    pub avoid: Avoid,
}

#[derive(Clone, Copy, Debug, Default, Serialize, Deserialize)]
pub struct Avoid {
    /// no default value on Json fields (known: missing parenthesis in the generated SQL)
    pub json_default: bool,
    /// no non finite float texts (known: `inf` spliced in the generated SQL)
    pub inf_float: bool,
    /// no single quote in string defaults (known: spliced unescaped)
    pub quote_default: bool,
    /// no null value for Json fields (known: unwrap of None)
    pub json_null: bool,
    /// table aliases (entity names and aliases, names and aliases of reference fields) are plain
    pub odd_alias: bool,
}

pub const FLOAT_TEXTS: &[&str] = &["0.0", "1.5", "-2.25", "1.", "0.1e-7", "3.0E+2", "1.0e308", "123456789012345678901234567890.0", "1.0e309", "-1.0e999"];
pub const INT_TEXTS: &[&str] = &[
    "0", "1", "-1", "42", "9223372036854775807", "-9223372036854775808", "007", "9223372036854775808", "-9223372036854775809", "99999999999999999999",
];
pub const STR_DEFAULTS: &[&str] = &["", "abc", "two words", "日本", "a\\\"b", "%_", "it's", "'", "x' OR '1'='1"];
pub const JSON_DEFAULTS: &[&str] = &["{}", "[]", "{\\\"a\\\":1}", "[1,\\\"x\\\"]"];
pub const B64_DEFAULTS: &[&str] = &["", "emV0", "AAAAAAAAAAAAAAAAAAAAAA"];

#[derive(Clone, Debug)]
pub struct RField {
    pub name: String,
    pub ty: Ty,
    pub nullable: bool,
    /// source text of the default value
    pub default: Option<String>,
}
#[derive(Clone, Debug)]
pub struct REnt {
    pub full_name: String,
    pub fields: Vec<RField>,
}
#[derive(Clone, Debug, Default)]
pub struct RModel {
    pub ents: Vec<REnt>,
    pub text: String,
    pub excluded: Vec<&'static str>,
    pub has_inf_default: bool,
    pub has_quote_default: bool,
}

fn unique(name: String, used: &mut Vec<String>, n: usize) -> String {
    let mut s = name;
    if is_model_reserved(&s) || s.starts_with('_') {
        s = format!("r{}", s);
    }
    if used.iter().any(|u| u == &s) {
        s = format!("{}_{}", s, n);
        let mut k = 0;
        while used.iter().any(|u| u == &s) {
            k += 1;
            s = format!("{}_{}", s, k);
        }
    }
    used.push(s.clone());
    s
}

const SYSTEM_FIELD_NAMES: &[&str] = &[
    "id", "room_id", "cdate", "mdate", "sys_peer", "sys_room", "_entity", "_json", "_binary", "verifying_key", "_signature",
];

pub fn resolve_model(m: &ModelSpec) -> RModel {
    let mut r = RModel::default();
    // names first (references need them)
    let total: usize = m.nss.iter().map(|n| n.ents.len()).sum();
    let mut names: Vec<String> = Vec::new();
    let mut ns_used: Vec<String> = vec!["sys".into(), "zzprobe".into()];
    let mut ns_names: Vec<String> = Vec::new();
    for (ni, ns) in m.nss.iter().enumerate() {
        let nsn = match ns.name {
            None if !ns_names.iter().any(|x: &String| x.is_empty()) => String::new(),
            None => unique("ns".into(), &mut ns_used, ni),
            Some(id) => {
                let plain = if m.avoid.odd_alias { Ident { cat: 0, ix: id.ix } } else { id };
                // the parser lower-cases the namespace: uniqueness is decided on that form
                let t = ident_text(plain);
                let low = t.to_lowercase();
                if ns_used.iter().any(|u| u.to_lowercase() == low) {
                    unique(format!("{}{}", t, ni), &mut ns_used, ni)
                } else {
                    ns_used.push(t.clone());
                    t
                }
            }
        };
        ns_names.push(nsn.clone());
        let mut used: Vec<String> = Vec::new();
        for (ei, e) in ns.ents.iter().enumerate() {
            let id = if m.avoid.odd_alias { Ident { cat: 0, ix: e.name.ix } } else { e.name };
            let n = unique(ident_text(id), &mut used, ei);
            names.push(if nsn.is_empty() { n } else { format!("{}.{}", nsn.to_lowercase(), n) });
        }
    }
    let mut text = String::new();
    let mut k = 0;
    for (ni, ns) in m.nss.iter().enumerate() {
        text.push_str(&format!("{} {{\n", ns_names[ni]));
        for e in &ns.ents {
            let full = names[k].clone();
            k += 1;
            let short = full.rsplit('.').next().unwrap().to_string();
            let mut re = REnt { full_name: full, fields: vec![] };
            text.push_str(&format!("  {}{} {{\n", short, if e.no_fts { "(no_full_text_index)" } else { "" }));
            let mut used: Vec<String> = SYSTEM_FIELD_NAMES.iter().map(|s| s.to_string()).collect();
            for (fi, f) in e.fields.iter().enumerate() {
                let fid = if m.avoid.odd_alias && f.ty.is_ref() { Ident { cat: 0, ix: f.name.ix } } else { f.name };
                let fname = unique(ident_text(fid), &mut used, fi);
                let ty = match f.ty {
                    Ty::Entity(t) => Ty::Entity(pick(t, total) as u16),
                    Ty::Array(t) => Ty::Array(pick(t, total) as u16),
                    t => t,
                };
                let ty_text = match ty {
                    Ty::Entity(t) => names[t as usize].clone(),
                    Ty::Array(t) => format!("[{}]", names[t as usize]),
                    t => t.name().to_string(),
                };
                let mut nullable = false;
                let mut default = None;
                let mut modif_text = String::new();
                match f.modif {
                    Modif::Plain => {}
                    Modif::Nullable => {
                        nullable = true;
                        modif_text = " nullable".into();
                    }
                    Modif::Default(d) => {
                        let d = d as usize;
                        let dv: Option<String> = match ty {
                            Ty::Integer => Some(INT_TEXTS[d % 7].to_string()),
                            Ty::Float => {
                                let mut t = FLOAT_TEXTS[d % FLOAT_TEXTS.len()];
                                if crate::shared::has_non_finite_float(t) {
                                    if m.avoid.inf_float {
                                        r.excluded.push("inf-float-default");
                                        t = "1.5";
                                    } else {
                                        r.has_inf_default = true;
                                    }
                                }
                                Some(t.to_string())
                            }
                            Ty::Boolean => Some(if d % 2 == 0 { "true".into() } else { "false".into() }),
                            Ty::String => {
                                let mut t = STR_DEFAULTS[d % STR_DEFAULTS.len()];
                                if t.contains('\'') {
                                    // (a quote in a String default broke every filter on the field: repaired, no longer avoided)
                                    if false && m.avoid.quote_default {
                                        r.excluded.push("quote-in-string-default");
                                        t = "abc";
                                    } else {
                                        r.has_quote_default = true;
                                    }
                                }
                                Some(format!("\"{}\"", t))
                            }
                            Ty::Base64 => Some(format!("\"{}\"", B64_DEFAULTS[d % B64_DEFAULTS.len()])),
                            Ty::Json => {
                                if m.avoid.json_default {
                                    r.excluded.push("json-default");
                                    nullable = true;
                                    None
                                } else {
                                    Some(format!("\"{}\"", JSON_DEFAULTS[d % JSON_DEFAULTS.len()]))
                                }
                            }
                            Ty::Entity(_) | Ty::Array(_) => None,
                        };
                        match dv {
                            Some(v) => {
                                modif_text = format!(" default {}", v);
                                default = Some(v);
                            }
                            None => {
                                if nullable {
                                    modif_text = " nullable".into();
                                }
                            }
                        }
                    }
                }
                text.push_str(&format!("    {} : {}{},\n", fname, ty_text, modif_text));
                re.fields.push(RField { name: fname, ty, nullable, default });
            }
            if let Some(ix) = &e.index {
                let mut cols: Vec<String> = Vec::new();
                for i in ix {
                    let scalars: Vec<&RField> = re.fields.iter().filter(|f| !f.ty.is_ref() && f.ty != Ty::Json).collect();
                    if scalars.is_empty() {
                        break;
                    }
                    let n = scalars[pick(*i, scalars.len())].name.clone();
                    if !cols.contains(&n) {
                        cols.push(n);
                    }
                }
                if !cols.is_empty() {
                    text.push_str(&format!("    index({}),\n", cols.join(",")));
                }
            }
            text.push_str("  }\n");
            r.ents.push(re);
        }
        text.push_str("}\n");
    }
    r.text = text;
    r
}

fn ty_strategy() -> impl Strategy<Value = Ty> {
    prop_oneof![
        2 => Just(Ty::Integer),
        2 => Just(Ty::Float),
        2 => Just(Ty::Boolean),
        3 => Just(Ty::String),
        2 => Just(Ty::Base64),
        3 => Just(Ty::Json),
        2 => any::<u16>().prop_map(Ty::Entity),
        2 => any::<u16>().prop_map(Ty::Array),
    ]
}

fn modif_strategy() -> impl Strategy<Value = Modif> {
    prop_oneof![3 => Just(Modif::Plain), 3 => Just(Modif::Nullable), 3 => any::<u8>().prop_map(Modif::Default)]
}

pub fn avoid_strategy() -> impl Strategy<Value = Avoid> {
    // most cases avoid the shapes of the known findings so that the rest of the request is
    // exercised; one case in eight keeps each shape
    (0u8..8, 0u8..8, 0u8..8, 0u8..8, 0u8..8).prop_map(|(a, b, c, d, e)| Avoid {
        json_default: a != 0,
        inf_float: b != 0,
        quote_default: c != 0,
        json_null: d != 0,
        odd_alias: e != 0,
    })
}

pub fn model_strategy(max_ents: usize, max_fields: usize) -> impl Strategy<Value = ModelSpec> {
    let field = (ident_strategy(true), ty_strategy(), modif_strategy()).prop_map(|(name, ty, modif)| FieldSpec { name, ty, modif });
    let ent = (
        ident_strategy(true),
        any::<bool>(),
        prop::collection::vec(field, 1..=max_fields),
        prop::option::weighted(0.3, prop::collection::vec(any::<u16>(), 1..3)),
    )
        .prop_map(|(name, no_fts, fields, index)| EntSpec { name, no_fts, fields, index });
    let ns = (prop::option::weighted(0.6, ident_strategy(true)), prop::collection::vec(ent, 1..=max_ents))
        .prop_map(|(name, ents)| NsSpec { name, ents });
    (prop::collection::vec(ns, 1..3), avoid_strategy()).prop_map(|(nss, avoid)| ModelSpec { nss, avoid })
}

/// a fixed model holding every field type in the three flavours (plain, nullable, default)
pub fn canonical_model() -> ModelSpec {
    let mut fields = Vec::new();
    let tys = [Ty::Integer, Ty::Float, Ty::Boolean, Ty::String, Ty::Base64, Ty::Json];
    let mut ix = 0u16;
    for t in tys {
        for m in [Modif::Plain, Modif::Nullable, Modif::Default(1)] {
            fields.push(FieldSpec { name: Ident { cat: 0, ix: ix.wrapping_mul(2979) }, ty: t, modif: m });
            ix += 1;
        }
    }
    fields.push(FieldSpec { name: Ident { cat: 0, ix: 60000 }, ty: Ty::Entity(0), modif: Modif::Nullable });
    fields.push(FieldSpec { name: Ident { cat: 0, ix: 62000 }, ty: Ty::Array(0), modif: Modif::Plain });
    ModelSpec {
        nss: vec![NsSpec { name: None, ents: vec![EntSpec { name: Ident { cat: 0, ix: 4000 }, no_fts: false, fields, index: None }] }],
        avoid: Avoid::default(),
    }
}

// ---------------------------------------------------------------------------------------------
// values and parameters
// ---------------------------------------------------------------------------------------------

#[derive(Clone, Copy, Debug, Serialize, Deserialize, PartialEq, Eq)]
pub enum PKind {
    Null,
    Bool(bool),
    Int(u8),
    Float(u8),
    Str(u8),
    Missing,
}
impl PKind {
    pub fn name(&self) -> &'static str {
        match self {
            PKind::Null => "Null",
            PKind::Bool(_) => "Bool",
            PKind::Int(_) => "Int",
            PKind::Float(_) => "Float",
            PKind::Str(_) => "Str",
            PKind::Missing => "Missing",
        }
    }
}

pub const PARAM_INTS: &[i64] = &[0, 1, -1, 42, i64::MAX, i64::MIN, 1_704_067_200_000];
pub const PARAM_FLOATS: &[f64] = &[0.0, 1.5, -2.25, 1e300, 5e-324, f64::INFINITY, f64::NAN, -0.0];
pub const PARAM_STRS: &[&str] = &[
    "x",
    "",
    "hello world",
    "it's",
    "emV0emV0",
    "AAAAAAAAAAAAAAAAAAAAAA",
    "{}",
    "{\"a\":[1,{\"b\":null}]}",
    "[1,2]",
    "not json {",
    "名前",
    "\u{0}",
    "\"",
    "AND",
    "%",
    "LONG",
];

pub fn pkind_strategy() -> impl Strategy<Value = PKind> {
    prop_oneof![
        3 => Just(PKind::Null),
        2 => any::<bool>().prop_map(PKind::Bool),
        2 => any::<u8>().prop_map(PKind::Int),
        2 => any::<u8>().prop_map(PKind::Float),
        4 => any::<u8>().prop_map(PKind::Str),
        1 => Just(PKind::Missing),
    ]
}

#[derive(Clone, Copy, Debug, Serialize, Deserialize)]
pub enum Val {
    /// a value that matches the type of the field (as a variable or as a literal)
    Good { var: bool, salt: u8 },
    Var(PKind),
    Lit(PKind),
}

pub fn val_strategy() -> impl Strategy<Value = Val> {
    prop_oneof![
        16 => (any::<bool>(), any::<u8>()).prop_map(|(var, salt)| Val::Good { var, salt }),
        2 => pkind_strategy().prop_map(Val::Var),
        1 => pkind_strategy().prop_map(Val::Lit),
    ]
}

fn str_param(i: u8) -> String {
    let s = PARAM_STRS[i as usize % PARAM_STRS.len()];
    if s == "LONG" {
        "long ".repeat(3000)
    } else {
        s.to_string()
    }
}

pub fn pval_of(k: PKind) -> Option<PVal> {
    Some(match k {
        PKind::Null => PVal::Null,
        PKind::Bool(b) => PVal::Bool(b),
        PKind::Int(i) => PVal::Int(PARAM_INTS[i as usize % PARAM_INTS.len()]),
        PKind::Float(i) => PVal::Float(PARAM_FLOATS[i as usize % PARAM_FLOATS.len()]),
        PKind::Str(i) => PVal::Str(str_param(i)),
        PKind::Missing => return None,
    })
}

fn quote(s: &str) -> String {
    // the grammar only knows \" \\ \/ \b \f \n \r \t \uXXXX; raw control characters are allowed
    let mut o = String::from("\"");
    for c in s.chars() {
        match c {
            '"' => o.push_str("\\\""),
            '\\' => o.push_str("\\\\"),
            c => o.push(c),
        }
    }
    o.push('"');
    o
}

pub fn literal_of(k: PKind, avoid_inf: bool, excluded: &mut Vec<&'static str>) -> String {
    match k {
        PKind::Null | PKind::Missing => "null".into(),
        PKind::Bool(b) => if b { "true".into() } else { "false".into() },
        PKind::Int(i) => INT_TEXTS[i as usize % INT_TEXTS.len()].to_string(),
        PKind::Float(i) => {
            let t = FLOAT_TEXTS[i as usize % FLOAT_TEXTS.len()];
            if crate::shared::has_non_finite_float(t) && avoid_inf {
                excluded.push("inf-float-literal");
                "2.5".into()
            } else {
                t.to_string()
            }
        }
        PKind::Str(i) => quote(&str_param(i)),
    }
}

/// a parameter / literal kind that the field type accepts
pub fn good_kind(ty: Ty, nullable: bool, salt: u8) -> PKind {
    if nullable && salt % 5 == 4 {
        return PKind::Null;
    }
    match ty {
        // one in sixteen: an integer literal that does not fit (an error path of the parsers)
        Ty::Integer => PKind::Int(if salt % 16 == 15 { 7 + salt % 3 } else { salt % 6 }),
        Ty::Float => {
            if salt % 3 == 0 {
                PKind::Int(salt % 4)
            } else {
                PKind::Float(salt % 5)
            }
        }
        Ty::Boolean => PKind::Bool(salt % 2 == 0),
        Ty::String => PKind::Str([0u8, 1, 2, 3, 10, 13, 14][(salt % 7) as usize]),
        Ty::Base64 => PKind::Str([4u8, 5, 1][(salt % 3) as usize]),
        Ty::Json => PKind::Str([6u8, 7, 8][(salt % 3) as usize]),
        Ty::Entity(_) | Ty::Array(_) => PKind::Null,
    }
}

// ---------------------------------------------------------------------------------------------
// requests
// ---------------------------------------------------------------------------------------------

#[derive(Clone, Copy, Debug, Serialize, Deserialize)]
pub enum IdSpec {
    None,
    /// the id of a row created earlier in the case
    Row(u16),
    /// a well formed id that no row has
    Unknown,
    Garbage(PKind),
}

pub fn id_strategy() -> impl Strategy<Value = IdSpec> {
    prop_oneof![
        6 => Just(IdSpec::None),
        4 => any::<u16>().prop_map(IdSpec::Row),
        1 => Just(IdSpec::Unknown),
        1 => pkind_strategy().prop_map(IdSpec::Garbage),
    ]
}

#[derive(Clone, Debug, Serialize, Deserialize)]
pub struct MutField {
    pub field: u16,
    pub val: Val,
    pub sub: Vec<MutField>,
    pub sub_id: IdSpec,
    pub count: u8,
}
#[derive(Clone, Debug, Serialize, Deserialize)]
pub struct MutEnt {
    pub alias: Option<Ident>,
    pub ent: u16,
    pub id: IdSpec,
    /// every field the model requires gets a good value first
    pub complete: bool,
    pub fields: Vec<MutField>,
}
#[derive(Clone, Debug, Serialize, Deserialize)]
pub struct MutReq {
    pub name: Option<Ident>,
    pub ents: Vec<MutEnt>,
}

#[derive(Clone, Copy, Debug, Serialize, Deserialize)]
pub enum Lim {
    Lit(u8),
    Var(PKind),
}

#[derive(Clone, Debug, Serialize, Deserialize)]
pub enum QParam {
    Filter { target: u16, op: u8, val: Val },
    JsonFilter { field: u16, sel: u8, op: u8, val: Val },
    OrderBy(Vec<(u16, bool)>),
    First(Lim),
    Skip(Lim),
    Paging { before: bool, vals: Vec<Val> },
    Search(Val),
    Nullable(Vec<u16>),
}

#[derive(Clone, Debug, Serialize, Deserialize)]
pub enum QField {
    Scalar { field: u16, alias: Option<Ident> },
    Sub { field: u16, alias: Option<Ident>, params: Vec<QParam>, fields: Vec<QField> },
    Func { alias: Ident, f: u8, field: u16 },
    Json { alias: Ident, field: u16, sel: u8 },
}

#[derive(Clone, Debug, Serialize, Deserialize)]
pub struct QEnt {
    pub alias: Option<Ident>,
    pub ent: u16,
    pub params: Vec<QParam>,
    pub fields: Vec<QField>,
}
#[derive(Clone, Debug, Serialize, Deserialize)]
pub struct QueryReq {
    pub name: Option<Ident>,
    pub ents: Vec<QEnt>,
}

#[derive(Clone, Debug, Serialize, Deserialize)]
pub struct DelEnt {
    pub alias: Option<Ident>,
    pub ent: u16,
    pub id: IdSpec,
    pub refs: Vec<(u16, Vec<IdSpec>)>,
}
#[derive(Clone, Debug, Serialize, Deserialize)]
pub struct DelReq {
    pub name: Option<Ident>,
    pub ents: Vec<DelEnt>,
}

#[derive(Clone, Debug, Serialize, Deserialize)]
pub enum Req {
    Mutate(MutReq),
    Query(QueryReq),
    Delete(DelReq),
}

fn mut_field_strategy(depth: u32) -> BoxedStrategy<MutField> {
    let sub = if depth == 0 {
        Just(Vec::new()).boxed()
    } else {
        prop::collection::vec(mut_field_strategy(depth - 1), 0..3).boxed()
    };
    (any::<u16>(), val_strategy(), sub, id_strategy(), 0u8..4)
        .prop_map(|(field, val, sub, sub_id, count)| MutField { field, val, sub, sub_id, count })
        .boxed()
}

pub fn mut_strategy() -> impl Strategy<Value = MutReq> {
    let ent = (
        prop::option::weighted(0.3, ident_strategy(true)),
        any::<u16>(),
        id_strategy(),
        prop::bool::weighted(0.8),
        prop::collection::vec(mut_field_strategy(2), 0..5),
    )
        .prop_map(|(alias, ent, id, complete, fields)| MutEnt { alias, ent, id, complete, fields });
    (prop::option::weighted(0.2, ident_strategy(true)), prop::collection::vec(ent, 1..3)).prop_map(|(name, ents)| MutReq { name, ents })
}

fn lim_strategy() -> impl Strategy<Value = Lim> {
    prop_oneof![3 => any::<u8>().prop_map(Lim::Lit), 2 => pkind_strategy().prop_map(Lim::Var)]
}

fn qparam_strategy() -> impl Strategy<Value = QParam> {
    prop_oneof![
        6 => (any::<u16>(), any::<u8>(), val_strategy()).prop_map(|(target, op, val)| QParam::Filter { target, op, val }),
        2 => (any::<u16>(), any::<u8>(), any::<u8>(), val_strategy()).prop_map(|(field, sel, op, val)| QParam::JsonFilter { field, sel, op, val }),
        3 => prop::collection::vec((any::<u16>(), any::<bool>()), 1..3).prop_map(QParam::OrderBy),
        2 => lim_strategy().prop_map(QParam::First),
        1 => lim_strategy().prop_map(QParam::Skip),
        1 => (any::<bool>(), prop::collection::vec(val_strategy(), 1..3)).prop_map(|(before, vals)| QParam::Paging { before, vals }),
        1 => val_strategy().prop_map(QParam::Search),
        1 => prop::collection::vec(any::<u16>(), 1..3).prop_map(QParam::Nullable),
    ]
}

fn qfield_strategy(depth: u32) -> BoxedStrategy<QField> {
    let scalar = (any::<u16>(), prop::option::weighted(0.3, ident_strategy(true))).prop_map(|(field, alias)| QField::Scalar { field, alias });
    let func = (ident_strategy(true), any::<u8>(), any::<u16>()).prop_map(|(alias, f, field)| QField::Func { alias, f, field });
    let json = (ident_strategy(true), any::<u16>(), any::<u8>()).prop_map(|(alias, field, sel)| QField::Json { alias, field, sel });
    if depth == 0 {
        prop_oneof![6 => scalar, 1 => func, 2 => json].boxed()
    } else {
        let sub = (
            any::<u16>(),
            prop::option::weighted(0.4, ident_strategy(true)),
            prop::collection::vec(qparam_strategy(), 0..3),
            prop_oneof![1 => Just(Vec::new()).boxed(), 12 => prop::collection::vec(qfield_strategy(depth - 1), 1..4).boxed()],
        )
            .prop_map(|(field, alias, params, fields)| QField::Sub { field, alias, params, fields });
        prop_oneof![6 => scalar, 1 => func, 2 => json, 3 => sub].boxed()
    }
}

pub fn query_strategy() -> impl Strategy<Value = QueryReq> {
    let ent = (
        prop::option::weighted(0.4, ident_strategy(true)),
        any::<u16>(),
        prop::collection::vec(qparam_strategy(), 0..4),
        prop_oneof![1 => Just(Vec::new()).boxed(), 15 => prop::collection::vec(qfield_strategy(2), 1..6).boxed()],
    )
        .prop_map(|(alias, ent, params, fields)| QEnt { alias, ent, params, fields });
    (prop::option::weighted(0.2, ident_strategy(true)), prop::collection::vec(ent, 1..3)).prop_map(|(name, ents)| QueryReq { name, ents })
}

pub fn del_strategy() -> impl Strategy<Value = DelReq> {
    let ent = (
        prop::option::weighted(0.2, ident_strategy(true)),
        any::<u16>(),
        id_strategy(),
        prop::collection::vec((any::<u16>(), prop::collection::vec(id_strategy(), 1..3)), 0..2),
    )
        .prop_map(|(alias, ent, id, refs)| DelEnt { alias, ent, id, refs });
    (prop::option::weighted(0.2, ident_strategy(true)), prop::collection::vec(ent, 1..3)).prop_map(|(name, ents)| DelReq { name, ents })
}

pub fn req_strategy() -> impl Strategy<Value = Req> {
    prop_oneof![
        4 => mut_strategy().prop_map(Req::Mutate),
        5 => query_strategy().prop_map(Req::Query),
        1 => del_strategy().prop_map(Req::Delete),
    ]
}

// ---------------------------------------------------------------------------------------------
// rendering
// ---------------------------------------------------------------------------------------------

#[derive(Clone, Debug, Default)]
pub struct Rendered {
    pub kind: char,
    pub text: String,
    pub params: Vec<(String, PVal)>,
    pub facts: SqlFacts,
    /// (field type, flavour, value kind, var|lit) combinations the request carries
    pub combos: Vec<String>,
    pub excluded: Vec<&'static str>,
    pub odd_idents: bool,
    pub dup_alias: bool,
    pub empty_selection: bool,
}

pub struct Ctx<'a> {
    pub model: &'a RModel,
    pub avoid: Avoid,
    /// ids of rows created so far (base64)
    pub rows: &'a [String],
    /// when set, every created row is placed in this room (needed on a real instance)
    pub room: Option<&'a str>,
    nvar: usize,
    out: Rendered,
    /// aliases under which a system field was selected
    sys_aliases: Vec<String>,
}

const OPS: &[&str] = &["=", "!=", ">", ">=", "<", "<="];
const SELECTORS: &[&str] = &["$", "$.a", "$.a.b", "$.a[0]", "0", "12", "$.名前", "$.select", "$.1"];
const UINT_TEXTS: &[&str] = &["0", "1", "10", "9223372036854775807", "007"];
const UNKNOWN_ID: &str = "ZZZZZZZZZZZZZZZZZZZZZw";

impl<'a> Ctx<'a> {
    pub fn new(model: &'a RModel, avoid: Avoid, rows: &'a [String], room: Option<&'a str>) -> Ctx<'a> {
        Ctx { model, avoid, rows, room, nvar: 0, out: Rendered::default(), sys_aliases: Vec::new() }
    }

    fn var(&mut self, k: PKind) -> String {
        self.nvar += 1;
        let name = format!("v{}", self.nvar);
        if let Some(v) = pval_of(k) {
            self.out.params.push((name.clone(), v));
        }
        format!("${}", name)
    }

    fn note_ident(&mut self, id: Ident) {
        if id.cat % 5 != 0 {
            self.out.odd_idents = true;
        }
    }

    fn alias(&mut self, a: Option<Ident>, table_alias: bool) -> Option<String> {
        a.map(|id| {
            let id = if table_alias && self.avoid.odd_alias && id.cat % 5 != 0 {
                self.out.excluded.push("odd-table-alias");
                Ident { cat: 0, ix: id.ix }
            } else {
                id
            };
            self.note_ident(id);
            let t = ident_text(id);
            if table_alias {
                self.out.facts.alias_candidates.push(t.clone());
            }
            t
        })
    }

    fn ent(&self, e: u16) -> &'a REnt {
        &self.model.ents[pick(e, self.model.ents.len())]
    }

    fn id_value(&mut self, id: IdSpec) -> Option<String> {
        match id {
            IdSpec::None => None,
            IdSpec::Row(r) => {
                if self.rows.is_empty() {
                    None
                } else {
                    let v = self.rows[pick(r, self.rows.len())].clone();
                    Some(self.var(PKind::Str(0)).to_string()).map(|name| {
                        // replace the value of the variable just created
                        if let Some(last) = self.out.params.last_mut() {
                            last.1 = PVal::Str(v);
                        }
                        name
                    })
                }
            }
            IdSpec::Unknown => {
                let name = self.var(PKind::Str(0));
                if let Some(last) = self.out.params.last_mut() {
                    last.1 = PVal::Str(UNKNOWN_ID.to_string());
                }
                Some(name)
            }
            IdSpec::Garbage(k) => Some(self.var(k)),
        }
    }

    /// text of a scalar value for a field and the combination it exercises
    fn scalar_value(&mut self, f: &RField, val: Val, place: &str) -> String {
        let (k, var) = match val {
            Val::Good { var, salt } => (good_kind(f.ty, f.nullable, salt), var),
            Val::Var(k) => (k, true),
            Val::Lit(k) => (k, false),
        };
        let mut k = k;
        if f.ty == Ty::Json && matches!(k, PKind::Null) && self.avoid.json_null && place == "mut" {
            self.out.excluded.push("json-null");
            k = PKind::Str(6);
        }
        let flavour = if f.nullable {
            "nullable"
        } else if f.default.is_some() {
            "default"
        } else {
            "plain"
        };
        self.out.combos.push(format!("{}:{}/{}/{}/{}", place, f.ty.name(), flavour, k.name(), if var { "var" } else { "lit" }));
        if var {
            self.var(k)
        } else {
            let avoid = self.avoid.inf_float;
            let mut ex = Vec::new();
            let t = literal_of(k, avoid, &mut ex);
            self.out.excluded.extend(ex);
            if crate::shared::has_non_finite_float(&t) {
                self.out.facts.non_finite_float = true;
            }
            t
        }
    }

    fn mut_fields(&mut self, ent: &'a REnt, fields: &[MutField], complete: bool, id: IdSpec, top: bool, buf: &mut String) {
        let mut written: Vec<String> = Vec::new();
        if let Some(v) = self.id_value(id) {
            buf.push_str(&format!(" id: {} ", v));
            written.push("id".into());
        } else if top {
            if let Some(room) = self.room {
                let name = self.var(PKind::Str(0));
                if let Some(last) = self.out.params.last_mut() {
                    last.1 = PVal::Str(room.to_string());
                }
                buf.push_str(&format!(" room_id: {} ", name));
            }
        }
        let is_update = written.iter().any(|w| w == "id");
        for mf in fields {
            if ent.fields.is_empty() {
                break;
            }
            let f = &ent.fields[pick(mf.field, ent.fields.len())];
            // duplicates are possible and are an error path of their own
            written.push(f.name.clone());
            match f.ty {
                Ty::Entity(t) | Ty::Array(t) => {
                    let target = &self.model.ents[t as usize];
                    match mf.val {
                        Val::Lit(PKind::Null) | Val::Var(PKind::Null) => buf.push_str(&format!(" {}: null ", f.name)),
                        Val::Var(k) => {
                            let v = self.var(k);
                            buf.push_str(&format!(" {}: {} ", f.name, v))
                        }
                        _ => {
                            let n = if matches!(f.ty, Ty::Array(_)) { mf.count as usize % 3 + 1 } else { 1 };
                            let mut parts = Vec::new();
                            for i in 0..n {
                                let mut inner = String::new();
                                let sid = if i == 0 { mf.sub_id } else { IdSpec::None };
                                self.mut_fields(target, &mf.sub, true, sid, false, &mut inner);
                                if inner.trim().is_empty() && mf.count % 4 != 3 {
                                    // the grammar wants at least one field in a reference
                                    match target.fields.iter().find(|f| !f.ty.is_ref()) {
                                        Some(f) => {
                                            let v = self.scalar_value(f, Val::Good { var: i % 2 == 0, salt: mf.count }, "mut");
                                            inner = format!(" {}: {} ", f.name, v);
                                        }
                                        None => {
                                            let v = self.id_value(IdSpec::Unknown).unwrap_or_default();
                                            inner = format!(" id: {} ", v);
                                        }
                                    }
                                }
                                parts.push(format!("{{{}}}", inner));
                            }
                            if matches!(f.ty, Ty::Array(_)) {
                                buf.push_str(&format!(" {}: [{}] ", f.name, parts.join(",")));
                            } else {
                                buf.push_str(&format!(" {}: {} ", f.name, parts[0]));
                            }
                        }
                    }
                }
                _ => {
                    let v = self.scalar_value(f, mf.val, "mut");
                    buf.push_str(&format!(" {}: {} ", f.name, v));
                }
            }
        }
        if complete && !is_update {
            for f in &ent.fields {
                if !f.ty.is_ref() && !f.nullable && f.default.is_none() && !written.contains(&f.name) {
                    let v = self.scalar_value(f, Val::Good { var: written.len() % 2 == 0, salt: (written.len() * 7) as u8 }, "mut");
                    buf.push_str(&format!(" {}: {} ", f.name, v));
                    written.push(f.name.clone());
                }
            }
        }
    }

    pub fn render_mut(mut self, m: &MutReq) -> Rendered {
        self.out.kind = 'm';
        let mut text = String::from("mutate");
        if let Some(n) = m.name {
            self.note_ident(n);
            text.push(' ');
            text.push_str(&ident_text(n));
        }
        text.push_str(" {\n");
        let mut names: Vec<String> = Vec::new();
        for e in &m.ents {
            let ent = self.ent(e.ent);
            let alias = self.alias(e.alias, false);
            let shown = alias.clone().unwrap_or(ent.full_name.clone());
            if names.contains(&shown) {
                self.out.dup_alias = true;
            }
            names.push(shown);
            let mut inner = String::new();
            self.mut_fields(ent, &e.fields, e.complete, e.id, true, &mut inner);
            match alias {
                Some(a) => text.push_str(&format!("  {} : {} {{{}}}\n", a, ent.full_name, inner)),
                None => text.push_str(&format!("  {} {{{}}}\n", ent.full_name, inner)),
            }
        }
        text.push('}');
        self.out.text = text;
        self.out
    }

    fn target_field(&self, ent: &'a REnt, selected: &[(String, Ty)], target: u16) -> (String, Ty, bool, bool) {
        // model fields, then system fields, then what the query selected under an alias
        let sys: [(&str, Ty); 4] = [("id", Ty::Base64), ("cdate", Ty::Integer), ("mdate", Ty::Integer), ("room_id", Ty::Base64)];
        let n = ent.fields.len() + sys.len() + selected.len();
        let i = pick(target, n);
        if i < ent.fields.len() {
            let f = &ent.fields[i];
            (f.name.clone(), f.ty, f.nullable, f.default.is_some())
        } else if i < ent.fields.len() + sys.len() {
            let s = sys[i - ent.fields.len()];
            (s.0.to_string(), s.1, s.0 == "room_id", false)
        } else {
            let s = &selected[i - ent.fields.len() - sys.len()];
            (s.0.clone(), s.1, true, false)
        }
    }

    fn qparams(&mut self, ent: &'a REnt, params: &[QParam], selected: &[(String, Ty)]) -> String {
        let mut parts: Vec<String> = Vec::new();
        for p in params {
            match p {
                QParam::Filter { target, op, val } => {
                    let (name, ty, nullable, has_default) = self.target_field(ent, selected, *target);
                    if self.sys_aliases.contains(&name) {
                        self.out.facts.filter_on_system_alias = true;
                    }
                    let f = RField { name: name.clone(), ty, nullable, default: if has_default { Some(String::new()) } else { None } };
                    let mut op = *op;
                    let v = if ty.is_ref() {
                        match val {
                            Val::Var(k) => self.var(*k),
                            Val::Lit(k) if !matches!(k, PKind::Null) => literal_of(*k, self.avoid.inf_float, &mut Vec::new()),
                            _ => {
                                // the only filter the language has on a reference: (not) null
                                if op % 8 != 7 {
                                    op %= 2;
                                }
                                "null".to_string()
                            }
                        }
                    } else {
                        self.scalar_value(&f, *val, "filter")
                    };
                    let op = &op;
                    if ty == Ty::Json && has_default {
                        self.out.facts.json_default_selected = true;
                    }
                    parts.push(format!("{} {} {}", name, OPS[*op as usize % OPS.len()], v));
                }
                QParam::JsonFilter { field, sel, op, val } => {
                    let jsons: Vec<&RField> = ent.fields.iter().filter(|f| f.ty == Ty::Json).collect();
                    let f = if jsons.is_empty() {
                        if ent.fields.is_empty() || sel % 6 != 0 {
                            continue;
                        }
                        &ent.fields[pick(*field, ent.fields.len())]
                    } else {
                        jsons[pick(*field, jsons.len())]
                    };
                    let fake = RField { name: f.name.clone(), ty: Ty::String, nullable: true, default: None };
                    let v = self.scalar_value(&fake, *val, "jsonfilter");
                    parts.push(format!("{}->{} {} {}", f.name, SELECTORS[*sel as usize % SELECTORS.len()], OPS[*op as usize % OPS.len()], v));
                }
                QParam::OrderBy(list) => {
                    let mut cols = Vec::new();
                    for (t, asc) in list {
                        let (name, _, _, _) = self.target_field(ent, selected, *t);
                        cols.push(format!("{} {}", name, if *asc { "asc" } else { "DESC" }));
                    }
                    parts.push(format!("order_by({})", cols.join(", ")));
                }
                QParam::First(l) | QParam::Skip(l) => {
                    let kw = if matches!(p, QParam::First(_)) { "first" } else { "skip" };
                    let v = match l {
                        Lim::Lit(i) => UINT_TEXTS[*i as usize % UINT_TEXTS.len()].to_string(),
                        Lim::Var(k) => {
                            self.out.combos.push(format!("limit:{}", k.name()));
                            self.var(*k)
                        }
                    };
                    parts.push(format!("{} {}", kw, v));
                }
                QParam::Paging { before, vals } => {
                    if !params.iter().any(|p| matches!(p, QParam::OrderBy(_))) {
                        // paging needs an ordering: give it one most of the time
                        if vals.len() % 4 != 3 {
                            parts.push("order_by(mdate desc)".to_string());
                            let v = match vals.first() {
                                Some(Val::Good { var: true, .. }) | Some(Val::Var(PKind::Int(_))) => self.var(PKind::Int(6)),
                                _ => "1704067200000".to_string(),
                            };
                            parts.push(format!("{}({})", if *before { "before" } else { "after" }, v));
                            continue;
                        }
                    }
                    let mut vs = Vec::new();
                    for v in vals {
                        let t = match v {
                            Val::Good { var, salt } => {
                                let k = [PKind::Int(*salt), PKind::Str(*salt), PKind::Float(*salt), PKind::Bool(true)][(*salt % 4) as usize];
                                if *var { self.var(k) } else { literal_of(k, self.avoid.inf_float, &mut Vec::new()) }
                            }
                            Val::Var(k) => self.var(*k),
                            Val::Lit(k) => {
                                if matches!(k, PKind::Null | PKind::Missing) {
                                    "0".to_string()
                                } else {
                                    literal_of(*k, self.avoid.inf_float, &mut Vec::new())
                                }
                            }
                        };
                        if crate::shared::has_non_finite_float(&t) {
                            self.out.facts.non_finite_float = true;
                        }
                        vs.push(t);
                    }
                    parts.push(format!("{}({})", if *before { "before" } else { "after" }, vs.join(",")));
                }
                QParam::Search(v) => {
                    let t = match v {
                        Val::Good { var, salt } => {
                            let k = PKind::Str([0u8, 2, 3, 10, 13, 12][(*salt % 6) as usize]);
                            if *var { self.var(k) } else { literal_of(k, false, &mut Vec::new()) }
                        }
                        Val::Var(k) => self.var(*k),
                        Val::Lit(k) => match k {
                            PKind::Str(_) => literal_of(*k, false, &mut Vec::new()),
                            _ => "\"abc\"".to_string(),
                        },
                    };
                    parts.push(format!("search({})", t));
                }
                QParam::Nullable(list) => {
                    let mut cols = Vec::new();
                    for t in list {
                        let refs: Vec<&(String, Ty)> = selected.iter().filter(|s| s.1.is_ref()).collect();
                        if !refs.is_empty() && t % 4 != 0 {
                            cols.push(refs[pick(*t, refs.len())].0.clone());
                        } else {
                            cols.push(self.target_field(ent, selected, *t).0);
                        }
                    }
                    parts.push(format!("nullable({})", cols.join(",")));
                }
            }
        }
        if parts.is_empty() {
            String::new()
        } else {
            format!("({})", parts.join(", "))
        }
    }

    fn qfields(&mut self, ent: &'a REnt, fields: &[QField], depth: usize) -> (String, Vec<(String, Ty)>) {
        let mut text = String::new();
        let mut selected: Vec<(String, Ty)> = Vec::new();
        let scalars: Vec<&RField> = ent.fields.iter().filter(|f| !f.ty.is_ref()).collect();
        let refs: Vec<&RField> = ent.fields.iter().filter(|f| f.ty.is_ref()).collect();
        let sys = ["id", "cdate", "mdate", "room_id", "verifying_key", "_signature", "_entity"];
        let sys_ty = [Ty::Base64, Ty::Integer, Ty::Integer, Ty::Base64, Ty::Base64, Ty::Base64, Ty::String];
        for qf in fields {
            match qf {
                QField::Scalar { field, alias } => {
                    let n = scalars.len() + sys.len();
                    let i = pick(*field, n);
                    let (name, ty, has_default) = if i < scalars.len() {
                        (scalars[i].name.clone(), scalars[i].ty, scalars[i].default.is_some())
                    } else {
                        (sys[i - scalars.len()].to_string(), sys_ty[i - scalars.len()], false)
                    };
                    if ty == Ty::Json && has_default {
                        self.out.facts.json_default_selected = true;
                    }
                    let a = self.alias(*alias, false);
                    let shown = a.clone().unwrap_or(name.clone());
                    if selected.iter().any(|s| s.0 == shown) {
                        self.out.dup_alias = true;
                    }
                    if a.is_some() && i >= scalars.len() {
                        self.sys_aliases.push(shown.clone());
                    }
                    selected.push((shown, ty));
                    match a {
                        Some(a) => text.push_str(&format!(" {} : {} ", a, name)),
                        None => text.push_str(&format!(" {} ", name)),
                    }
                }
                QField::Func { alias, f, field } => {
                    let a = self.alias(Some(*alias), false).unwrap();
                    let fname = if scalars.is_empty() { "id".to_string() } else { scalars[pick(*field, scalars.len())].name.clone() };
                    let call = match f % 5 {
                        0 => "count()".to_string(),
                        1 => format!("avg({})", fname),
                        2 => format!("max({})", fname),
                        3 => format!("min({})", fname),
                        _ => format!("sum({})", fname),
                    };
                    if selected.iter().any(|s| s.0 == a) {
                        self.out.dup_alias = true;
                    }
                    selected.push((a.clone(), Ty::Float));
                    text.push_str(&format!(" {} : {} ", a, call));
                }
                QField::Json { alias, field, sel } => {
                    let jsons: Vec<&&RField> = scalars.iter().filter(|f| f.ty == Ty::Json).collect();
                    if jsons.is_empty() && sel % 6 != 0 {
                        continue;
                    }
                    let (fname, has_default) = if jsons.is_empty() {
                        if scalars.is_empty() {
                            ("id".to_string(), false)
                        } else {
                            let f = scalars[pick(*field, scalars.len())];
                            (f.name.clone(), false)
                        }
                    } else {
                        let f = jsons[pick(*field, jsons.len())];
                        (f.name.clone(), f.default.is_some())
                    };
                    if has_default {
                        self.out.facts.json_default_selected = true;
                    }
                    let a = self.alias(Some(*alias), false).unwrap();
                    if selected.iter().any(|s| s.0 == a) {
                        self.out.dup_alias = true;
                    }
                    selected.push((a.clone(), Ty::String));
                    text.push_str(&format!(" {} : {}->{} ", a, fname, SELECTORS[*sel as usize % SELECTORS.len()]));
                }
                QField::Sub { field, alias, params, fields } => {
                    // reference fields of the model and the two system references
                    let n = refs.len() + 2;
                    let i = pick(*field, n);
                    let (name, target, ty): (String, Option<&'a REnt>, Ty) = if i < refs.len() {
                        let t = match refs[i].ty {
                            Ty::Entity(t) | Ty::Array(t) => t,
                            _ => 0,
                        };
                        (refs[i].name.clone(), Some(&self.model.ents[t as usize]), refs[i].ty)
                    } else if i == refs.len() {
                        ("sys_room".to_string(), None, Ty::Entity(0))
                    } else {
                        ("sys_peer".to_string(), None, Ty::Entity(0))
                    };
                    if i < refs.len() && !self.avoid.odd_alias {
                        self.out.facts.alias_candidates.push(name.clone());
                    }
                    let a = self.alias(*alias, true);
                    if a.is_none() {
                        self.out.facts.alias_candidates.push(name.clone());
                    }
                    let shown = a.clone().unwrap_or(name.clone());
                    if selected.iter().any(|s| s.0 == shown) {
                        self.out.dup_alias = true;
                    }
                    selected.push((shown, ty));
                    let (inner, p) = match target {
                        Some(t) if depth < 3 => {
                            let (inner, sel) = self.qfields(t, fields, depth + 1);
                            let p = self.qparams(t, params, &sel);
                            (inner, p)
                        }
                        Some(_) => (" id ".to_string(), String::new()),
                        None => (if name == "sys_room" { " id mdate ".to_string() } else { " id name pub_key ".to_string() }, String::new()),
                    };
                    if inner.trim().is_empty() {
                        self.out.empty_selection = true;
                    }
                    match a {
                        Some(a) => text.push_str(&format!(" {} : {} {} {{{}}} ", a, name, p, inner)),
                        None => text.push_str(&format!(" {} {} {{{}}} ", name, p, inner)),
                    }
                }
            }
        }
        if text.trim().is_empty() && !fields.is_empty() {
            text.push_str(" id ");
            selected.push(("id".to_string(), Ty::Base64));
        }
        (text, selected)
    }

    pub fn render_query(mut self, q: &QueryReq) -> Rendered {
        self.out.kind = 'q';
        let mut text = String::from("query");
        if let Some(n) = q.name {
            self.note_ident(n);
            text.push(' ');
            text.push_str(&ident_text(n));
        }
        text.push_str(" {\n");
        let mut names: Vec<String> = Vec::new();
        for e in &q.ents {
            let ent = self.ent(e.ent);
            let alias = self.alias(e.alias, true);
            if alias.is_none() {
                self.out.facts.alias_candidates.push(ent.full_name.replace('.', "$"));
            }
            let shown = alias.clone().unwrap_or(ent.full_name.clone());
            if names.contains(&shown) {
                self.out.dup_alias = true;
            }
            names.push(shown);
            let (inner, selected) = self.qfields(ent, &e.fields, 0);
            if inner.trim().is_empty() {
                self.out.empty_selection = true;
            }
            let p = self.qparams(ent, &e.params, &selected);
            match alias {
                Some(a) => text.push_str(&format!("  {} : {} {} {{{}}}\n", a, ent.full_name, p, inner)),
                None => text.push_str(&format!("  {} {} {{{}}}\n", ent.full_name, p, inner)),
            }
        }
        text.push('}');
        self.out.text = text;
        self.out.facts.non_finite_float |= self.model.has_inf_default;
        self.out.facts.quote_in_string_default |= self.model.has_quote_default;
        self.out
    }

    pub fn render_del(mut self, d: &DelReq) -> Rendered {
        self.out.kind = 'd';
        let mut text = String::from("delete");
        if let Some(n) = d.name {
            self.note_ident(n);
            text.push(' ');
            text.push_str(&ident_text(n));
        }
        text.push_str(" {\n");
        for e in &d.ents {
            let ent = self.ent(e.ent);
            let alias = self.alias(e.alias, false);
            let id = match self.id_value(e.id) {
                Some(v) => v,
                None => {
                    let name = self.var(PKind::Str(0));
                    if let Some(last) = self.out.params.last_mut() {
                        last.1 = PVal::Str(UNKNOWN_ID.to_string());
                    }
                    name
                }
            };
            let mut inner = format!(" {} ", id);
            for (f, ids) in &e.refs {
                let arrays: Vec<&RField> = ent.fields.iter().filter(|f| matches!(f.ty, Ty::Array(_))).collect();
                let name = if arrays.is_empty() {
                    if ent.fields.is_empty() {
                        continue;
                    }
                    ent.fields[pick(*f, ent.fields.len())].name.clone()
                } else {
                    arrays[pick(*f, arrays.len())].name.clone()
                };
                let mut vs = Vec::new();
                for i in ids {
                    let v = match self.id_value(*i) {
                        Some(v) => v,
                        None => self.var(PKind::Str(5)),
                    };
                    vs.push(v);
                }
                inner.push_str(&format!(" {}[{}] ", name, vs.join(",")));
            }
            match alias {
                Some(a) => text.push_str(&format!("  {} : {} {{{}}}\n", a, ent.full_name, inner)),
                None => text.push_str(&format!("  {} {{{}}}\n", ent.full_name, inner)),
            }
        }
        text.push('}');
        self.out.text = text;
        self.out
    }
}

pub fn render(req: &Req, model: &RModel, avoid: Avoid, rows: &[String], room: Option<&str>) -> Rendered {
    let ctx = Ctx::new(model, avoid, rows, room);
    match req {
        Req::Mutate(m) => ctx.render_mut(m),
        Req::Query(q) => ctx.render_query(q),
        Req::Delete(d) => ctx.render_del(d),
    }
}

/// ids found in the JSON result of a mutation (every "id" member, depth first)
pub fn ids_of_result(json: &str) -> Vec<String> {
    fn walk(v: &serde_json::Value, out: &mut Vec<String>) {
        match v {
            serde_json::Value::Object(m) => {
                for (k, v) in m {
                    if k == "id" {
                        if let Some(s) = v.as_str() {
                            out.push(s.to_string());
                        }
                    } else {
                        walk(v, out);
                    }
                }
            }
            serde_json::Value::Array(a) => {
                for v in a {
                    walk(v, out)
                }
            }
            _ => {}
        }
    }
    let mut out = Vec::new();
    if let Ok(v) = serde_json::from_str::<serde_json::Value>(json) {
        walk(&v, &mut out);
    }
    out
}
