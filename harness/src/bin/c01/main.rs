//! C01: local writes are applied only with the room's rights at that time.
use dv::engine::*;
use dv::rightsworld::*;
use dv::world::*;
use proptest::prelude::*;
use serde::{Deserialize, Serialize};
use std::collections::BTreeSet;

struct C01;

#[derive(Clone, Debug, Serialize, Deserialize)]
pub struct Case {
    pub idents: u8,
    pub ops: Vec<ROp>,
}

fn strategy(max_ops: usize) -> BoxedStrategy<Case> {
    (2u8..=4)
        .prop_flat_map(move |idents| {
            // every history starts with a room so that the data operations have something to aim at
            let first = (0..idents, proptest::collection::vec(group_strategy(idents), 1..3))
                .prop_map(|(by, groups)| ROp::RoomCreate { by, other_admins: vec![], groups });
            (Just(idents), first, proptest::collection::vec(rop_strategy(idents), 4..max_ops))
        })
        .prop_map(|(idents, first, mut ops)| {
            ops.insert(0, first);
            Case { idents, ops }
        })
        .boxed()
}

impl Property for C01 {
    type Case = Case;
    const ID: &'static str = "C01";
    fn plan(tier: Tier) -> Plan {
        match tier {
            Tier::Quick => Plan { shards: 16, cases_per_shard: 60, max_shrink_iters: 200 },
            Tier::Thorough => Plan { shards: 16, cases_per_shard: 2000, max_shrink_iters: 400 },
        }
    }
    fn strategy(tier: Tier) -> BoxedStrategy<Case> {
        match tier {
            Tier::Quick => strategy(45),
            Tier::Thorough => strategy(90),
        }
    }
    fn run(case: &Case, ctx: &RunCtx) -> Outcome {
        begin_case(1);
        let dir = ctx.case_dir("c01");
        let rt = runtime();
        let out = rt.block_on(async {
            let mut o = Outcome::default();
            let mut w = match RightsWorld::start(case.idents as usize, &dir).await {
                Ok(w) => w,
                Err(e) => {
                    o.discard = Some(format!("world-start:{}", e));
                    return o;
                }
            };
            let mut seen = BTreeSet::new();
            let (mut denied_judged, mut allowed_judged, mut interesting) = (0, 0, false);
            for (i, op) in case.ops.iter().enumerate() {
                // full content of the caller's instance before the operation
                let caller = match op {
                    ROp::Data { by, .. }
                    | ROp::AddAdmin { by, .. }
                    | ROp::AddGroup { by, .. }
                    | ROp::AddRight { by, .. }
                    | ROp::AddUser { by, .. }
                    | ROp::AddUserAdmin { by, .. }
                    | ROp::RoomCreate { by, .. } => Some(*by as usize % w.peers.len()),
                    _ => None,
                };
                let before = match caller {
                    Some(c) => {
                        w.peers[c].fence().await;
                        Some(w.peers[c].snapshot().await)
                    }
                    None => None,
                };
                let step = w.apply(op).await;
                if !step.applied {
                    continue;
                }
                o.count(&format!("op:{}", step.kind), 1);
                let (Some(res), Some(before)) = (&step.result, before) else { continue };
                let after = w.peers[step.by].snapshot().await;
                match (res, step.entitled) {
                    (Ok(()), Some(false)) if before == after => {
                        // nothing was changed (e.g. removing a reference that does not exist)
                        o.label(format!("accepted-noop:{}", step.kind));
                    }
                    (Ok(()), Some(false)) => {
                        let sig = format!("accepted-without-right:{}", step.kind);
                        if seen.insert(sig.clone()) {
                            o.violation(sig, format!("step {} {:?} by id{}: accepted although {}", i, op, step.by, step.why));
                        }
                        denied_judged += 1;
                    }
                    (Ok(()), Some(true)) => {
                        allowed_judged += 1;
                        o.label(format!("accepted:{}", step.kind));
                    }
                    (Err(e), ent) => {
                        if ent == Some(true) {
                            o.label(format!("refused-although-entitled:{}", step.kind));
                            o.count("refused-although-entitled", 1);
                            if std::env::var("DV_TRACE").is_ok() {
                                println!("refused-although-entitled step {} {:?}: {} ({})", i, op, e, step.why);
                            }
                        } else if ent == Some(false) {
                            denied_judged += 1;
                            o.label(format!("refused:{}", step.kind));
                        }
                        if before != after {
                            let sig = format!("refused-operation-left-a-trace:{}", step.kind);
                            if seen.insert(sig.clone()) {
                                let what = if before.nodes != after.nodes {
                                    "nodes"
                                } else if before.edges != after.edges {
                                    "edges"
                                } else if before.log != after.log {
                                    "daily log"
                                } else {
                                    "deletion logs"
                                };
                                o.violation(sig, format!("step {} {:?} by id{}: refused ({}) but the {} changed", i, op, step.by, e, what));
                            }
                        }
                    }
                    (Ok(()), None) => {}
                }
                // the decision function itself: for every room the caller's instance knows, the code's
                // decisions at the operation date for EVERY identity equal the model's over the same entries
                {
                    let now = Clock::get();
                    let keys = w.keys();
                    let ents = ["app.Item", "app.Note", "app.Unlisted"];
                    for r in w.rooms.clone() {
                        if let Some(room) = w.peers[step.by].room(r.id).await {
                            let model = dv::rights::RoomModel::from_room(&room);
                            let mut dates = vec![now];
                            dates.extend(model.dates());
                            let code = dv::rights::code_matrix(&room, &keys, &ents, &dates);
                            let mine = model.matrix(&keys, &ents, &dates);
                            o.count("decision-points-compared", code.len() as u64);
                            if let Some((c, m)) = code.iter().zip(mine.iter()).find(|(c, m)| c != m) {
                                let what = if c.3 != m.3 { "is-admin" } else if c.4 != m.4 { "is-member" } else if c.5 != m.5 { "can-own" } else { "can-all" };
                                let sig = format!("decision-differs-from-model:{}", what);
                                if seen.insert(sig.clone()) {
                                    o.violation(sig, format!("step {}: room {} on id{}: code {:?} model {:?}", i, r.id64, step.by, c, m));
                                }
                            }
                        }
                    }
                }
                if step.kind.contains("foreign") || step.kind.contains("nested") || step.kind.starts_with("move") {
                    interesting = true;
                }
                // an accepted creation must be visible
                if res.is_ok() && step.kind.starts_with("create") {
                    for id in &step.new_row_ids {
                        if w.held(step.by, id).await.is_none() {
                            o.violation("accepted-creation-not-stored", format!("step {} {:?}", i, op));
                        }
                    }
                }
            }
            o.nontrivial = denied_judged > 0 && allowed_judged > 0 && interesting;
            o.label(format!("idents:{}", case.idents));
            o
        });
        drop(rt);
        let _ = std::fs::remove_dir_all(&dir);
        out
    }
    fn rule() -> String {
        "proptest histories over 2-4 identities (real instances): room creations with 1-2 groups (per-entity and wildcard rights, users and user admins enabled or disabled), later definition changes by any identity (admins, groups, rights, users, user admins), pulls that propagate definitions and foreign rows, clock ticks (ms to days), and data operations of every shape by any identity (create, nested create with inherited or explicit other room, update own/foreign, move between rooms, reference set/remove/add, node and reference deletion, direct mutation or deletion of authorisation rows). Oracle: a rights model written from the property statement, evaluated over the entries the caller's instance holds at the operation date; an accepted operation the model does not entitle is a violation; a refused operation must leave every table of the instance unchanged. Non-trivial = the history has judged refusals and judged acceptances and an operation on a foreign row, a nested creation or a move; distinct = distinct case digest".to_string()
    }
    fn assumptions() -> Vec<String> {
        vec![
            "only allow/deny is compared, never the error variant; refusals of entitled callers are counted (label refused-although-entitled) but not judged: the statement is 'only if'".into(),
            "the caller's knowledge of a room is read from its in-memory room (hook VerifRoom) as data; every decision is made by the harness model".into(),
        ]
    }
}
fn main() {
    main_for::<C01>()
}
