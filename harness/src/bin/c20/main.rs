//! C20 - Room synchronisation locks: exclusive, bounded, never lost.
//!
//! Part 1 (this file, `model.rs`, `exec.rs`): sequences of requests / unlocks / connection ends
//! against the real `RoomLockService`, judged by a lock model. Random sequences (proptest) and the
//! exhaustive enumeration of every canonical sequence up to a bounded length.
mod exec;
mod exitpaths;
mod model;
mod mutants;

use dv::engine::*;
use exec::*;
use model::*;
use proptest::prelude::*;
use proptest::strategy::BoxedStrategy;
use serde_json::{json, Value};
use std::collections::BTreeMap;

fn judge_foreign() -> bool {
    std::env::var("C20_JUDGE_FOREIGN").map(|v| v == "1").unwrap_or(false)
}

fn show(ops: &[Op]) -> String {
    ops.iter()
        .map(|o| match o {
            Op::Req { c, rooms } => format!("req(c{},{:?})", c, rooms),
            Op::Rel { room } => format!("rel({})", room),
            Op::Steal { room } => format!("steal({})", room),
            Op::Drop { c, unread, late, rev } => format!(
                "drop(c{}{}{}{})",
                c,
                if *unread { ",unread" } else { "" },
                if *late { ",late" } else { "" },
                if *rev { ",rev" } else { "" }
            ),
        })
        .collect::<Vec<_>>()
        .join(" ")
}

// ---------------------------------------------------------------------------------------------
// random sequences

fn op_strategy() -> BoxedStrategy<Op> {
    let rooms = prop_oneof![
        1 => Just(Vec::<u8>::new()),
        30 => proptest::collection::vec(0u8..3, 1..=3),
    ];
    prop_oneof![
        9 => (0u8..3, rooms).prop_map(|(c, rooms)| Op::Req { c, rooms }),
        8 => (0u8..3).prop_map(|room| Op::Rel { room }),
        2 => (0u8..3).prop_map(|room| Op::Steal { room }),
        3 => (0u8..3, proptest::bool::weighted(0.3), proptest::bool::weighted(0.3), any::<bool>())
            .prop_map(|(c, unread, late, rev)| Op::Drop { c, unread, late, rev }),
    ]
    .boxed()
}

fn normalise(mut s: Seq) -> Seq {
    for op in s.ops.iter_mut() {
        match op {
            Op::Req { c, rooms } => {
                *c = (*c).min(s.ncirc - 1);
                let mut l: Vec<u8> = vec![];
                for r in rooms.iter() {
                    let r = (*r).min(s.nrooms - 1);
                    if !l.contains(&r) {
                        l.push(r);
                    }
                }
                *rooms = l;
            }
            Op::Rel { room } | Op::Steal { room } => *room = (*room).min(s.nrooms - 1),
            Op::Drop { c, unread, late, .. } => {
                *c = (*c).min(s.ncirc - 1);
                if !s.races {
                    *unread = false;
                    *late = false;
                }
            }
        }
    }
    s
}

fn seq_strategy(max_len: usize) -> BoxedStrategy<Case> {
    (
        1u8..=2,
        1u8..=3,
        1u8..=3,
        proptest::bool::weighted(0.15),
        proptest::bool::weighted(0.10),
        proptest::collection::vec(op_strategy(), 1..=max_len),
    )
        .prop_map(|(limit, nrooms, ncirc, races, foreign, ops)| {
            Case::Seq(normalise(Seq {
                limit,
                nrooms,
                ncirc,
                races,
                foreign,
                ops,
            }))
        })
        .boxed()
}

// ---------------------------------------------------------------------------------------------
// exhaustive enumeration

/// room lists of a request, canonical with respect to room renaming: rooms that have not appeared
/// yet in the sequence are introduced in index order
fn room_lists(used: u8, nrooms: u8, all_orders: bool) -> Vec<Vec<u8>> {
    fn rec(cur: &mut Vec<u8>, next_new: u8, used: u8, nrooms: u8, out: &mut Vec<Vec<u8>>) {
        if !cur.is_empty() {
            out.push(cur.clone());
        }
        if cur.len() == nrooms as usize {
            return;
        }
        for r in 0..nrooms {
            if cur.contains(&r) {
                continue;
            }
            if r >= used && r != next_new {
                continue;
            }
            cur.push(r);
            let nn = if r >= used { next_new + 1 } else { next_new };
            rec(cur, nn, used, nrooms, out);
            cur.pop();
        }
    }
    let mut out = vec![];
    rec(&mut vec![], used, used, nrooms, &mut out);
    if !all_orders {
        out.retain(|l| l.windows(2).all(|w| w[0] < w[1]) || l.windows(2).all(|w| w[0] > w[1]));
    }
    out
}

/// every canonical next operation in the model state `m` (state after the prefix)
fn successors(m: &Model, b: &Block) -> Vec<Op> {
    let mut v = vec![];
    let used_c = m.circuits_seen();
    let used_r = m.rooms_seen;
    let lists = room_lists(used_r, b.nrooms, b.all_orders);
    for c in 0..=used_c.min(b.ncirc - 1) {
        for l in &lists {
            v.push(Op::Req { c, rooms: l.clone() });
        }
    }
    for room in 0..used_r {
        v.push(Op::Rel { room });
        if m.live_holder(room).is_some() {
            let z = m.zombie_for(room).is_some();
            if (z && b.races) || (!z && b.foreign) {
                v.push(Op::Steal { room });
            }
        }
    }
    for c in 0..b.ncirc {
        let ci = &m.circ[c as usize];
        if !ci.live {
            continue;
        }
        let last: Vec<u8> = m.last_grants.iter().filter(|(gc, r)| *gc == c && ci.held.contains(r)).map(|(_, r)| *r).collect();
        let unreads: &[bool] = if b.races && !last.is_empty() { &[false, true] } else { &[false] };
        for unread in unreads {
            let acquired = ci.held.len() - if *unread { last.len() } else { 0 };
            let lates: &[bool] = if b.races && acquired > 0 && !ci.pending_circ.is_empty() { &[false, true] } else { &[false] };
            for late in lates {
                let revs: &[bool] = if acquired == 2 { &[false, true] } else { &[false] };
                for rev in revs {
                    v.push(Op::Drop {
                        c,
                        unread: *unread,
                        late: *late,
                        rev: *rev,
                    });
                }
            }
        }
    }
    v
}

fn block_seq(b: &Block, ops: Vec<Op>) -> Seq {
    Seq {
        limit: b.limit,
        nrooms: b.nrooms,
        ncirc: b.ncirc,
        races: b.races,
        foreign: b.foreign,
        ops,
    }
}

struct Config {
    limit: u8,
    nrooms: u8,
    ncirc: u8,
    races: bool,
    foreign: bool,
    all_orders: bool,
    depth: u8,
}

fn configs(tier: Tier) -> Vec<Config> {
    let mut v = vec![];
    let quick = tier == Tier::Quick;
    let mut add = |limit: u8, nrooms: u8, ncirc: u8, races: bool, foreign: bool, depth: u8| {
        v.push(Config { limit, nrooms, ncirc, races, foreign, all_orders: true, depth })
    };
    for limit in 1..=2u8 {
        // callers as they are when no connection ends in the middle of a synchronisation
        add(limit, 1, 3, false, false, if quick { 8 } else { 11 });
        add(limit, 2, 3, false, false, if quick { 6 } else if limit == 1 { 8 } else { 7 });
        add(limit, 3, 3, false, false, 5);
        if !quick && limit == 2 {
            add(limit, 3, 2, false, false, 6);
        }
        // with the exit races of a connection (findings expected): not extended past a violation
        add(limit, 1, 3, true, false, if quick { 6 } else { 8 });
        add(limit, 2, 3, true, false, if quick { 5 } else { 6 });
        add(limit, 3, 3, true, false, if quick { 4 } else { 5 });
        // with foreign unlocks (counted, not judged by default)
        add(limit, 2, 3, false, true, if quick { 4 } else { 5 });
        add(limit, 3, 3, false, true, 4);
    }
    v
}

/// blocks: one shallow block holding every sequence shorter than the split length, then one block
/// per canonical prefix of the split length
fn blocks(tier: Tier) -> Vec<Case> {
    let mut out = vec![];
    for cfg in configs(tier) {
        let base = Block {
            limit: cfg.limit,
            nrooms: cfg.nrooms,
            ncirc: cfg.ncirc,
            races: cfg.races,
            foreign: cfg.foreign,
            all_orders: cfg.all_orders,
            depth: 0,
            prefix: vec![],
        };
        // split where the tree is wide enough to balance the shards
        let mut level: Vec<Vec<Op>> = vec![vec![]];
        let mut split = 0u8;
        while split < cfg.depth && level.len() < 600 {
            let mut next = vec![];
            for p in &level {
                let r = run_seq(&block_seq(&base, p.clone()), 1, judge_foreign());
                if r.end.stopped() {
                    continue;
                }
                for s in successors(&r.state, &base) {
                    let mut q = p.clone();
                    q.push(s);
                    next.push(q);
                }
            }
            level = next;
            split += 1;
        }
        if split > 0 {
            // every sequence shorter than the split length
            let mut b = base.clone();
            b.depth = split - 1;
            out.push(Case::Block(b));
        }
        for p in level {
            let mut b = base.clone();
            b.depth = cfg.depth;
            b.prefix = p;
            out.push(Case::Block(b));
        }
    }
    out
}

fn merge_model(o: &mut Outcome, m: &Model, as_labels: bool) {
    for l in &m.labels {
        if as_labels {
            o.label(*l);
        } else {
            o.count(&format!("seq_label {}", l), 1);
        }
    }
    for (k, n) in &m.counters {
        o.count(k, *n);
    }
    for u in &m.unjudged {
        o.count(&format!("unjudged {}", u), 1);
        if as_labels {
            o.label(format!("unjudged:{}", u));
        }
    }
}

fn nontrivial(m: &Model) -> bool {
    m.grants_after_wait >= 1 && m.circuits_seen() >= 2
}

fn run_block(b: &Block) -> Outcome {
    let mut o = Outcome::default();
    let jf = judge_foreign();
    let mut stack: Vec<Vec<Op>> = vec![b.prefix.clone()];
    // shortest violating sequence per signature
    let mut found: BTreeMap<String, (usize, String)> = BTreeMap::new();
    let mut label_counts: BTreeMap<&'static str, u64> = BTreeMap::new();
    let mut model_counts: BTreeMap<&'static str, u64> = BTreeMap::new();
    let mut by_len = [0u64; 16];
    let (mut n, mut msgs, mut nontriv, mut reruns, mut pruned) = (0u64, 0u64, 0u64, 0u64, 0u64);
    while let Some(ops) = stack.pop() {
        let seq = block_seq(b, ops);
        let r = run_seq(&seq, 1, jf);
        n += 1;
        by_len[seq.ops.len().min(15)] += 1;
        msgs += r.steps;
        if n % 61 == 0 {
            let r2 = run_seq(&seq, 3, jf);
            reruns += 1;
            if r2.trace != r.trace {
                o.violation("harness:execution-not-a-function-of-the-sequence", format!("{} | {:?} vs {:?}", show(&seq.ops), r.trace, r2.trace));
            }
        }
        for l in &r.end.labels {
            *label_counts.entry(*l).or_insert(0) += 1;
        }
        for (k, c) in &r.end.counters {
            *model_counts.entry(*k).or_insert(0) += c;
        }
        for u in &r.end.unjudged {
            o.count(&format!("unjudged {}", u), 1);
        }
        if nontrivial(&r.state) {
            nontriv += 1;
        }
        if !r.end.violations.is_empty() {
            for (sig, detail) in &r.end.violations {
                o.count(&format!("enum_violating {}", sig), 1);
                let better = found.get(sig).map(|(l, _)| seq.ops.len() < *l).unwrap_or(true);
                if better {
                    found.insert(
                        sig.clone(),
                        (
                            seq.ops.len(),
                            format!(
                                "limit={} rooms={} [{}]: {} ;; as a sequence case: {}",
                                b.limit,
                                b.nrooms,
                                show(&seq.ops),
                                detail,
                                serde_json::to_string(&Case::Seq(seq.clone())).unwrap()
                            ),
                        ),
                    );
                }
            }
            continue;
        }
        if r.end.stopped() {
            pruned += 1;
            continue;
        }
        if seq.ops.len() < b.depth as usize {
            for s in successors(&r.state, b) {
                let mut q = seq.ops.clone();
                q.push(s);
                stack.push(q);
            }
        }
    }
    o.count("enum_sequences", n);
    o.count("enum_service_messages", msgs);
    o.count("enum_nontrivial_sequences", nontriv);
    o.count("determinism_reruns", reruns);
    if pruned > 0 {
        o.count("enum_pruned_after_unjudged", pruned);
    }
    for (i, c) in by_len.iter().enumerate() {
        if *c > 0 {
            o.count(&format!("enum_sequences len={:02}", i), *c);
        }
    }
    for (l, c) in label_counts {
        o.count(&format!("seq_label {}", l), c);
    }
    for (k, c) in model_counts {
        o.count(k, c);
    }
    o.nontrivial = nontriv > 0;
    for (sig, (_, detail)) in found {
        o.violation(sig, detail);
    }
    o.label(format!(
        "block:limit{}-rooms{}-circuits{}{}{}",
        b.limit,
        b.nrooms,
        b.ncirc,
        if b.races { "-races" } else { "" },
        if b.foreign { "-foreign" } else { "" }
    ));
    o
}

fn run_one(seq: &Seq) -> Outcome {
    let mut o = Outcome::default();
    let jf = judge_foreign();
    let r = run_seq(seq, 1, jf);
    let r2 = run_seq(seq, 3, jf);
    let s1: Vec<&String> = r.end.violations.iter().map(|v| &v.0).collect();
    let s2: Vec<&String> = r2.end.violations.iter().map(|v| &v.0).collect();
    if r.trace != r2.trace || s1 != s2 {
        o.violation(
            "harness:execution-not-a-function-of-the-sequence",
            format!("{} | {:?} vs {:?}", show(&seq.ops), r.trace, r2.trace),
        );
    }
    merge_model(&mut o, &r.end, true);
    o.count("service_messages", r.steps);
    o.count("ops_executed", r.executed_ops as u64);
    o.count("grants_in_sequence", r.state.grants_total);
    o.count("grants_in_sequence_after_wait", r.state.grants_after_wait);
    o.nontrivial = nontrivial(&r.state);
    if r.state.grants_after_wait > 0 {
        o.label("shape:waiting-request-served-later");
    }
    if seq.races {
        o.label("switch:exit-races-allowed");
    }
    if seq.foreign {
        o.label("switch:foreign-unlocks-allowed");
    }
    if r.end.taint_stolen.is_some() && r.end.violations.is_empty() && r.end.unjudged.is_empty() {
        o.label("shape:non-holder-unlock-without-visible-effect");
    }
    if r.end.taint_lost.is_some() && r.end.violations.is_empty() {
        o.label("shape:lost-grant-without-visible-effect");
    }
    o.label(format!("len:{}", match seq.ops.len() {
        0..=4 => "1-4",
        5..=9 => "5-9",
        10..=14 => "10-14",
        15..=24 => "15-24",
        _ => "25-40",
    }));
    for (sig, detail) in &r.end.violations {
        o.violation(sig.clone(), format!("limit={} rooms={} [{}]: {}", seq.limit, seq.nrooms, show(&seq.ops), detail));
    }
    o
}

struct C20;
impl Property for C20 {
    type Case = Case;
    const ID: &'static str = "C20";
    const ISOLATE: bool = false;
    fn plan(tier: Tier) -> Plan {
        match tier {
            Tier::Quick => Plan { shards: 16, cases_per_shard: 20000, max_shrink_iters: 2000 },
            Tier::Thorough => Plan { shards: 16, cases_per_shard: 120000, max_shrink_iters: 4000 },
        }
    }
    fn strategy(tier: Tier) -> BoxedStrategy<Case> {
        match tier {
            Tier::Quick => seq_strategy(14),
            Tier::Thorough => seq_strategy(40),
        }
    }
    fn fixed_cases(tier: Tier) -> Vec<Case> {
        let mut v: Vec<Case> = exitpaths::all_cases().into_iter().map(Case::Exit).collect();
        if std::env::var("C20_ONLY_EXIT").is_ok() {
            return v;
        }
        v.extend(blocks(tier));
        v
    }
    fn run(case: &Case, ctx: &RunCtx) -> Outcome {
        match case {
            Case::Seq(s) => run_one(s),
            Case::Block(b) => run_block(b),
            Case::Exit(e) => {
                let r = exitpaths::run_exit(e, &ctx.scratch);
                let mut o = Outcome::default();
                o.labels = r.labels;
                o.discard = r.discard.map(|d| format!("exit-path:{}", d));
                o.nontrivial = e.scenario != exitpaths::Scenario::Normal && o.discard.is_none();
                o.count("exit_path_cases", 1);
                for (sig, detail) in r.violations {
                    o.violation(sig, format!("real LocalPeerService, {:?}: {}", e, detail));
                }
                o
            }
        }
    }
    fn rule() -> String {
        "part 1: sequences over {request by a new circuit / reconnection / repeated request while waiting with overlapping rooms, unlock by the holder, unlock of a free room, non-holder unlock (leftover task of an ended connection = double unlock; foreign), end of a connection (cleanup unlocks, channel dropped; variants: grants unread, channel dropped late)} for 1-3 circuits, 1-3 rooms, limit 1-2, run on the real RoomLockService one message at a time and judged by a lock model, a final bounded drain and a probe connection; random sequences (proptest) plus blocks enumerating EVERY canonical sequence (up to renaming of circuits and rooms) to a bounded length. part 2: every combination of the exit-path scenario parameters (normal end / connection closed during a room synchronisation / loop exit on a malformed answer / end of events while the loop is busy; competitor, second request, full peer-service mailbox) on the real LocalPeerService::start wired to a real instance in memory. non-trivial = at least two circuits and at least one grant that answered a request only after an unlock (a waiting request served later), or an exit-path case other than the normal end; distinct = distinct case digest (inside blocks: counter enum_nontrivial_sequences)".to_string()
    }
    fn assumptions() -> Vec<String> {
        vec![
            "part 1 drives the lock service directly (RoomLockService::start/request_locks/unlock) on a current-thread runtime; the callers in peer_inbound_service.rs are represented by the operations they can produce, read from the code and confirmed by part 2".into(),
            "part 2 runs the real LocalPeerService::start (main loop, process_acquired_room, cleanup) over in-memory channels; the QUIC transport and PeerConnectionService are not part of the check; its outcomes depend on thread scheduling (multi-thread runtime), liveness is judged with deadlines of 3-8 s".into(),
            "two connections alive at the same time under one circuit id are not generated".into(),
            "violations that need a foreign unlock (no caller sends one) are counted (counters 'unjudged ...') but not reported unless C20_JUDGE_FOREIGN=1".into(),
        ]
    }
    fn extra_coverage(tier: Tier, m: &Merged) -> BTreeMap<String, Value> {
        let mut out = BTreeMap::new();
        let cfgs: Vec<Value> = configs(tier)
            .iter()
            .map(|c| {
                json!({"limit": c.limit, "rooms": c.nrooms, "circuits": c.ncirc, "exit_races": c.races, "foreign_unlocks": c.foreign,
                       "room_list_orders": if c.all_orders {"all"} else {"ascending/descending"}, "all_sequences_up_to_length": c.depth})
            })
            .collect();
        out.insert("exhaustive".into(), json!(true));
        out.insert("exit_path_cases_all_parameter_combinations".into(), json!(exitpaths::all_cases().len()));
        out.insert("exhaustive_domain".into(), json!(cfgs));
        out.insert("exhaustive_sequences".into(), json!(m.counters.get("enum_sequences").cloned().unwrap_or(0)));
        out.insert(
            "exhaustive_nontrivial_sequences".into(),
            json!(m.counters.get("enum_nontrivial_sequences").cloned().unwrap_or(0)),
        );
        out.insert(
            "exhaustive_note".into(),
            json!("every canonical sequence (circuits and rooms introduced in index order, operations without effect on the service omitted) of the listed lengths, each run from a fresh service with the final drain and probe; sequences are not extended past a violation"),
        );
        out
    }
}

fn main() {
    if let Ok(v) = std::env::var("C20_COUNT") {
        // development aid: size of the enumeration for one configuration "limit,rooms,races,foreign,depth"
        let p: Vec<u8> = v.split(',').map(|x| x.parse().unwrap()).collect();
        let b = Block { limit: p[0], nrooms: p[1], ncirc: p.get(5).cloned().unwrap_or(3), races: p[2] == 1, foreign: p[3] == 1, all_orders: true, depth: p[4], prefix: vec![] };
        let t = std::time::Instant::now();
        let o = run_block(&b);
        for (k, n) in &o.counters {
            if k.starts_with("enum_") {
                println!("{:>10} {}", n, k);
            }
        }
        for v in &o.violations {
            println!("{} :: {}", v.signature, v.detail);
        }
        println!("{:?}", t.elapsed());
        return;
    }
    main_for::<C20>()
}
