//! Case types and the lock MODEL of property C20, written from the property statement only.
//!
//! Vocabulary. A *circuit* is the identity under which a remote peer asks for locks (the key of the
//! lock service); a *connection* is one life of a circuit: it owns one grant channel. When a
//! connection ends, the next request of the same circuit opens a new connection (a reconnection,
//! as `PeerManager::circuit_id` is a function of the two endpoint ids).
//!
//! What the statement gives the model:
//!   * exclusive  : a room is held by at most one live connection at a time;
//!   * bounded    : the number of rooms held by live connections never exceeds the limit;
//!   * requested  : a grant answers a pending request of the circuit, once per request;
//!   * never lost : when granted rooms are released, every room requested by a live connection is
//!                  granted (checked by a bounded drain at the end of the sequence);
//!   * released   : what a connection held when it ended is available again (checked by the drain
//!                  and by a probe connection that must be able to take every room, `limit` at once).
//! The model never predicts WHICH pending request is served: that is left to the service.

use serde::{Deserialize, Serialize};
use std::collections::{BTreeMap, BTreeSet};

pub const MAX_CIRC: usize = 3;
/// circuit index used by the probe connection of the final check
pub const PROBE: u8 = 3;

#[derive(Serialize, Deserialize, Debug, Clone, PartialEq, Eq, Hash)]
pub enum Op {
    /// `request_locks(circuit c, rooms in this order, channel of the live connection of c)`.
    /// When c has no live connection a new one is opened (new peer, or reconnection).
    Req { c: u8, rooms: Vec<u8> },
    /// the room synchronisation task of the live holder of `room` ends: `unlock(room)`.
    /// When no live connection holds the room this is an unlock of a free room.
    Rel { room: u8 },
    /// `unlock(room)` sent by somebody who is NOT the holder while a live connection holds the room:
    /// the still running task of an ended connection whose `cleanup` already unlocked the room
    /// (double unlock, what the real callers do), or, when there is no such task, a foreign unlock
    /// (no real caller does that).
    Steal { room: u8 },
    /// the connection of circuit c ends (main loop of `LocalPeerService::start` exits): `cleanup`
    /// unlocks the acquired rooms and the grant channel is dropped.
    /// `unread`: the grants delivered during the previous step were still in the channel when the
    ///           loop exited (they never reached `process_acquired_room`);
    /// `late`  : the channel is dropped only after the service handled the unlocks of `cleanup`;
    /// `rev`   : order of the unlocks of `cleanup` (the real code iterates a HashSet).
    Drop { c: u8, unread: bool, late: bool, rev: bool },
}

#[derive(Serialize, Deserialize, Debug, Clone, PartialEq, Eq)]
pub struct Seq {
    pub limit: u8,
    pub nrooms: u8,
    pub ncirc: u8,
    /// generator switch: exit races of a connection are allowed (double unlock by a leftover task,
    /// unread grants, late channel drop). When false those shapes are replaced by their plain form.
    pub races: bool,
    /// generator switch: foreign unlocks are allowed. When false a `Steal` without leftover task is
    /// executed as `Rel`.
    pub foreign: bool,
    pub ops: Vec<Op>,
}

/// exhaustive enumeration of every canonical continuation of `prefix` up to `depth` operations
#[derive(Serialize, Deserialize, Debug, Clone, PartialEq, Eq)]
pub struct Block {
    pub limit: u8,
    pub nrooms: u8,
    pub ncirc: u8,
    pub races: bool,
    pub foreign: bool,
    /// room lists of requests in every order (true) or ascending / descending only (false)
    pub all_orders: bool,
    pub depth: u8,
    pub prefix: Vec<Op>,
}

#[derive(Serialize, Deserialize, Debug, Clone, PartialEq, Eq)]
pub enum Case {
    Seq(Seq),
    Block(Block),
    Exit(crate::exitpaths::ExitCase),
}

#[derive(Clone, Copy, Debug, PartialEq, Eq)]
pub enum Kind {
    Exclusive,
    Bound,
    GrantWithoutRequest,
    Starvation,
    ProbeUnder,
    ProbeMissing,
}

#[derive(Clone, Debug, Default)]
pub struct Circ {
    /// number of connections opened so far on this circuit (0: never seen)
    pub gen: u32,
    pub live: bool,
    /// the loop has exited, `cleanup` is running, the channel is still open
    pub ending: bool,
    /// rooms requested by any connection of the circuit and not granted yet
    pub pending_circ: BTreeSet<u8>,
    /// rooms requested by the live connection and not granted yet
    pub pending_live: BTreeSet<u8>,
    /// rooms granted to the live connection and not released yet
    pub held: BTreeSet<u8>,
    /// rooms this circuit has ever been granted
    pub ever_held: BTreeSet<u8>,
}

#[derive(Clone, Debug)]
pub struct Model {
    pub limit: usize,
    pub nrooms: u8,
    pub circ: Vec<Circ>,
    /// room synchronisation tasks of ended connections that have not sent their unlock yet
    pub zombies: Vec<(u8, u8)>,
    /// set when a non-holder unlock hit a room held by a live connection: the service now believes
    /// the room free. "double-unlock" (real callers) or "foreign-unlock" (no real caller)
    pub taint_stolen: Option<&'static str>,
    /// set when a grant was lost with an ending connection: the service believes the room locked,
    /// nobody will ever unlock it
    pub taint_lost: Option<&'static str>,
    pub lost_rooms: BTreeSet<u8>,
    /// grants of the previous step (circuit, room)
    pub last_grants: Vec<(u8, u8)>,
    pub violations: Vec<(String, String)>,
    /// would-be violations that are not judged (foreign unlocks), by signature
    pub unjudged: Vec<String>,
    pub labels: BTreeSet<&'static str>,
    pub counters: BTreeMap<&'static str, u64>,
    pub rooms_seen: u8,
    pub grants_total: u64,
    pub grants_after_wait: u64,
    pub judge_foreign: bool,
}

impl Model {
    pub fn new(limit: usize, nrooms: u8, judge_foreign: bool) -> Self {
        Model {
            limit,
            nrooms,
            circ: vec![Circ::default(); MAX_CIRC + 1],
            zombies: vec![],
            taint_stolen: None,
            taint_lost: None,
            lost_rooms: BTreeSet::new(),
            last_grants: vec![],
            violations: vec![],
            unjudged: vec![],
            labels: BTreeSet::new(),
            counters: BTreeMap::new(),
            rooms_seen: 0,
            grants_total: 0,
            grants_after_wait: 0,
            judge_foreign,
        }
    }
    pub fn count(&mut self, k: &'static str) {
        *self.counters.entry(k).or_insert(0) += 1;
    }
    /// true when the sequence must not be interpreted any further
    pub fn stopped(&self) -> bool {
        !self.violations.is_empty() || !self.unjudged.is_empty()
    }
    pub fn live_holder(&self, room: u8) -> Option<u8> {
        (0..self.circ.len() as u8).find(|c| self.circ[*c as usize].live && self.circ[*c as usize].held.contains(&room))
    }
    pub fn held_total(&self) -> usize {
        self.circ.iter().filter(|c| c.live).map(|c| c.held.len()).sum()
    }
    pub fn zombie_for(&self, room: u8) -> Option<usize> {
        self.zombies.iter().position(|(_, r)| *r == room)
    }
    pub fn circuits_seen(&self) -> u8 {
        self.circ.iter().take(MAX_CIRC).filter(|c| c.gen > 0).count() as u8
    }

    /// the classifier: a stable signature from the kind of deviation and what made it possible
    pub fn signature(&self, kind: Kind) -> String {
        match kind {
            Kind::Exclusive | Kind::Bound => {
                let k = if kind == Kind::Exclusive { "exclusive" } else { "bound" };
                match self.taint_stolen {
                    Some(t) => format!("unlock-has-no-owner:{}:{}", t, k),
                    None => {
                        if kind == Kind::Exclusive {
                            "exclusive:room-granted-while-held".to_string()
                        } else {
                            "bound:held-rooms-exceed-limit".to_string()
                        }
                    }
                }
            }
            Kind::Starvation | Kind::ProbeUnder | Kind::ProbeMissing => match self.taint_lost {
                // one deviation seen three ways: a room (and its slot) stays locked for nobody
                Some(t) => format!("lost-lock:{}", t),
                None => match kind {
                    Kind::Starvation => "starvation:pending-request-never-granted".to_string(),
                    Kind::ProbeUnder => "slot-leak:fewer-rooms-at-once-than-limit".to_string(),
                    _ => "room-stuck:free-room-never-granted".to_string(),
                },
            },
            Kind::GrantWithoutRequest => "grant-without-pending-request".to_string(),
        }
    }

    pub fn violate(&mut self, kind: Kind, detail: String) {
        let sig = self.signature(kind);
        let foreign = self.taint_stolen == Some("foreign-unlock")
            && matches!(kind, Kind::Exclusive | Kind::Bound);
        if foreign && !self.judge_foreign {
            self.unjudged.push(sig);
        } else {
            self.violations.push((sig, detail));
        }
    }

    /// a grant observed on the channel of circuit c
    pub fn on_grant(&mut self, c: u8, room: u8, step: usize, after_wait: bool) {
        if self.circ[c as usize].ending {
            // the connection has left its loop: nobody will synchronise nor unlock this room
            self.taint_lost = Some("granted-to-ending-connection");
            self.lost_rooms.insert(room);
            self.labels.insert("grant-lost:during-cleanup");
            self.circ[c as usize].pending_circ.remove(&room);
            return;
        }
        self.grants_total += 1;
        if after_wait {
            self.grants_after_wait += 1;
        }
        if !self.circ[c as usize].pending_circ.remove(&room) {
            self.violate(
                Kind::GrantWithoutRequest,
                format!("step {}: room {} granted to circuit {} which has no pending request for it", step, room, c),
            );
        }
        self.circ[c as usize].pending_live.remove(&room);
        if let Some(h) = self.live_holder(room) {
            self.violate(
                Kind::Exclusive,
                format!("step {}: room {} granted to circuit {} while circuit {} holds it", step, room, c, h),
            );
        }
        self.circ[c as usize].held.insert(room);
        self.circ[c as usize].ever_held.insert(room);
        self.last_grants.push((c, room));
    }

    pub fn check_bound(&mut self, step: usize) {
        if self.stopped() {
            return;
        }
        let n = self.held_total();
        if n > self.limit {
            let held: Vec<String> = (0..=MAX_CIRC)
                .filter(|c| self.circ[*c].live)
                .map(|c| format!("c{}:{:?}", c, self.circ[c].held))
                .collect();
            self.violate(
                Kind::Bound,
                format!("step {}: {} rooms held at once with limit {} ({})", step, n, self.limit, held.join(" ")),
            );
        }
    }
}
