//! Drives the real `RoomLockService` with one sequence: one message at a time, the actor is left to
//! run until idle, then every grant channel is read. The execution is a function of the sequence.

use crate::model::*;
use discret::verif::synchronisation::room_locking_service::RoomLockService;
use std::collections::{BTreeSet, VecDeque};
use tokio::sync::mpsc;

type Uid = [u8; 16];

fn room_uid(r: u8) -> Uid {
    let mut u = [0xA0u8; 16];
    u[0] = r + 1;
    u[15] = r + 1;
    u
}
fn uid_room(u: &Uid, nrooms: u8) -> Option<u8> {
    (0..nrooms.max(3)).find(|r| &room_uid(*r) == u)
}
fn circuit_id(c: u8, gen_salt: u8) -> [u8; 32] {
    let _ = gen_salt;
    let mut id = [0x5Cu8; 32];
    id[0] = c + 1;
    id[31] = c + 1;
    id
}

thread_local! {
    static RT: tokio::runtime::Runtime = tokio::runtime::Builder::new_current_thread().build().unwrap();
}

pub struct SeqResult {
    /// grants observed after each message sent to the service: (message index, circuit, room)
    pub trace: Vec<(u32, u8, u8)>,
    /// model after the last operation, before the final drain
    pub state: Model,
    /// model after the final drain and probe
    pub end: Model,
    pub steps: u64,
    pub executed_ops: usize,
}

enum Svc {
    Real(RoomLockService),
    Mutant(crate::mutants::MutantLockService),
}
impl Svc {
    fn start(limit: usize) -> Svc {
        match std::env::var("C20_MUTANT").ok().and_then(|v| v.parse::<u8>().ok()) {
            Some(n) => Svc::Mutant(crate::mutants::MutantLockService::start(limit, n)),
            None => Svc::Real(RoomLockService::start(limit)),
        }
    }
    async fn request_locks(&self, circuit: [u8; 32], rooms: VecDeque<Uid>, reply: mpsc::UnboundedSender<Uid>) {
        match self {
            Svc::Real(s) => s.request_locks(circuit, rooms, reply).await,
            Svc::Mutant(s) => s.request_locks(circuit, rooms, reply).await,
        }
    }
    async fn unlock(&self, room: Uid) {
        match self {
            Svc::Real(s) => s.unlock(room).await,
            Svc::Mutant(s) => s.unlock(room).await,
        }
    }
}

struct Exec {
    svc: Svc,
    chans: Vec<Option<(mpsc::UnboundedSender<Uid>, mpsc::UnboundedReceiver<Uid>)>>,
    yields: usize,
    msg_index: u32,
    nrooms: u8,
    trace: Vec<(u32, u8, u8)>,
    steps: u64,
}

impl Exec {
    async fn settle(&mut self) {
        for _ in 0..self.yields {
            tokio::task::yield_now().await;
        }
        self.msg_index += 1;
        self.steps += 1;
    }
    async fn request(&mut self, c: u8, rooms: &[u8]) {
        let q: VecDeque<Uid> = rooms.iter().map(|r| room_uid(*r)).collect();
        let tx = self.chans[c as usize].as_ref().expect("live channel").0.clone();
        self.svc.request_locks(circuit_id(c, 0), q, tx).await;
        self.settle().await;
    }
    async fn unlock(&mut self, room: u8) {
        self.svc.unlock(room_uid(room)).await;
        self.settle().await;
    }
    /// reads every open grant channel, circuits in index order, and feeds the model
    fn collect(&mut self, m: &mut Model, step: usize, after_wait: bool) {
        m.last_grants.clear();
        for c in 0..self.chans.len() {
            let mut got = vec![];
            if let Some((_, rx)) = self.chans[c].as_mut() {
                while let Ok(u) = rx.try_recv() {
                    got.push(u);
                }
            }
            for u in got {
                match uid_room(&u, self.nrooms) {
                    Some(r) => {
                        self.trace.push((self.msg_index, c as u8, r));
                        m.on_grant(c as u8, r, step, after_wait);
                    }
                    None => {
                        m.violations.push((
                            "grant-of-unknown-room".to_string(),
                            format!("step {}: circuit {} received an id that was never requested", step, c),
                        ));
                    }
                }
            }
        }
        m.check_bound(step);
    }
}

pub fn run_seq(seq: &Seq, yields: usize, judge_foreign: bool) -> SeqResult {
    RT.with(|rt| rt.block_on(run_seq_async(seq, yields, judge_foreign)))
}

async fn run_seq_async(seq: &Seq, yields: usize, judge_foreign: bool) -> SeqResult {
    let limit = seq.limit.clamp(1, 2) as usize;
    let nrooms = seq.nrooms.clamp(1, 3);
    let ncirc = seq.ncirc.clamp(1, MAX_CIRC as u8);
    let mut m = Model::new(limit, nrooms, judge_foreign);
    let mut ex = Exec {
        svc: Svc::start(limit),
        chans: (0..=MAX_CIRC).map(|_| None).collect(),
        yields,
        msg_index: 0,
        nrooms,
        trace: vec![],
        steps: 0,
    };
    let mut executed = 0usize;
    for (i, op) in seq.ops.iter().enumerate() {
        if m.stopped() {
            break;
        }
        executed += 1;
        apply(op, i, seq, &mut m, &mut ex, ncirc, nrooms).await;
    }
    let state = m.clone();
    if !m.stopped() {
        finish(&mut m, &mut ex, seq.ops.len()).await;
    }
    SeqResult {
        trace: ex.trace,
        state,
        end: m,
        steps: ex.steps,
        executed_ops: executed,
    }
}

async fn apply(op: &Op, i: usize, seq: &Seq, m: &mut Model, ex: &mut Exec, ncirc: u8, nrooms: u8) {
    match op {
        Op::Req { c, rooms } => {
            let c = (*c).min(ncirc - 1);
            let mut list: Vec<u8> = vec![];
            for r in rooms {
                let r = (*r).min(nrooms - 1);
                if !list.contains(&r) {
                    list.push(r);
                }
            }
            let ci = c as usize;
            if !m.circ[ci].live {
                m.circ[ci].gen += 1;
                m.circ[ci].live = true;
                m.circ[ci].pending_live.clear();
                m.circ[ci].held.clear();
                ex.chans[ci] = Some(mpsc::unbounded_channel());
                if m.circ[ci].gen > 1 {
                    m.labels.insert("req:reconnection-same-circuit");
                    if !m.circ[ci].pending_circ.is_empty() {
                        m.labels.insert("req:reconnection-with-stale-pending");
                    }
                } else {
                    m.labels.insert("req:new-peer");
                }
            } else if !m.circ[ci].pending_live.is_empty() {
                m.labels.insert("req:repeated-while-waiting");
                if list.iter().any(|r| m.circ[ci].pending_live.contains(r)) {
                    m.labels.insert("req:overlapping-room-set");
                }
            } else {
                m.labels.insert("req:again-after-served");
            }
            if list.iter().any(|r| m.circ[ci].held.contains(r)) {
                m.labels.insert("req:room-it-holds");
            }
            if list.is_empty() {
                m.labels.insert("req:empty-room-list");
            }
            if list.iter().any(|r| m.live_holder(*r).map(|h| h != c).unwrap_or(false)) {
                m.labels.insert("req:room-held-by-other");
            }
            if m.held_total() >= m.limit && !list.is_empty() {
                m.labels.insert("req:while-limit-reached");
            }
            for r in &list {
                m.circ[ci].pending_live.insert(*r);
                m.circ[ci].pending_circ.insert(*r);
                m.rooms_seen = m.rooms_seen.max(*r + 1);
            }
            ex.request(c, &list).await;
            ex.collect(m, i, false);
        }
        Op::Rel { room } => {
            let room = (*room).min(nrooms - 1);
            release(room, i, m, ex).await;
        }
        Op::Steal { room } => {
            let room = (*room).min(nrooms - 1);
            let holder = m.live_holder(room);
            let zombie = m.zombie_for(room);
            match (holder, zombie) {
                (Some(_), Some(z)) if seq.races => {
                    m.zombies.remove(z);
                    m.taint_stolen = Some(match m.taint_stolen {
                        Some("foreign-unlock") => "foreign-unlock",
                        _ => "double-unlock",
                    });
                    m.labels.insert("unlock:double(cleanup+task)-of-room-held-by-other");
                    ex.unlock(room).await;
                    ex.collect(m, i, true);
                }
                (Some(_), None) if seq.foreign => {
                    m.taint_stolen = Some("foreign-unlock");
                    m.labels.insert("unlock:foreign-of-room-held-by-other");
                    ex.unlock(room).await;
                    ex.collect(m, i, true);
                }
                (Some(_), _) => {
                    m.count("excluded_nonholder_unlock");
                    release(room, i, m, ex).await;
                }
                (None, _) => release(room, i, m, ex).await,
            }
        }
        Op::Drop { c, unread, late, rev } => {
            let c = (*c).min(ncirc - 1);
            let ci = c as usize;
            if !m.circ[ci].live {
                m.labels.insert("drop:no-live-connection(noop)");
                return;
            }
            let (mut unread, mut late) = (*unread, *late);
            if !seq.races && (unread || late) {
                m.count("excluded_exit_race_flags");
                unread = false;
                late = false;
            }
            let unread_set: BTreeSet<u8> = if unread {
                m.last_grants.iter().filter(|(gc, _)| *gc == c).map(|(_, r)| *r).collect()
            } else {
                BTreeSet::new()
            };
            let mut acquired: Vec<u8> = m.circ[ci].held.iter().filter(|r| !unread_set.contains(r)).cloned().collect();
            if *rev {
                acquired.reverse();
            }
            if !unread_set.is_empty() {
                m.taint_lost = Some("grant-unread-at-loop-exit");
                m.lost_rooms.extend(unread_set.iter().cloned());
                m.labels.insert("grant-lost:unread-at-loop-exit");
            }
            if acquired.is_empty() {
                m.labels.insert("drop:holding-nothing");
            } else {
                m.labels.insert("drop:while-holding");
            }
            if !m.circ[ci].pending_live.is_empty() {
                m.labels.insert("drop:while-waiting");
            }
            m.circ[ci].live = false;
            m.circ[ci].held.clear();
            m.circ[ci].pending_live.clear();
            for r in &acquired {
                m.zombies.push((c, *r));
            }
            if late && !acquired.is_empty() {
                m.circ[ci].ending = true;
                m.labels.insert("drop:channel-dropped-after-cleanup");
                for r in &acquired {
                    ex.unlock(*r).await;
                    ex.collect(m, i, true);
                }
                m.circ[ci].ending = false;
                ex.chans[ci] = None;
            } else {
                ex.chans[ci] = None;
                for r in &acquired {
                    ex.unlock(*r).await;
                    ex.collect(m, i, true);
                }
            }
        }
    }
}

async fn release(room: u8, i: usize, m: &mut Model, ex: &mut Exec) {
    match m.live_holder(room) {
        Some(h) => {
            m.circ[h as usize].held.remove(&room);
            m.labels.insert("unlock:by-holder");
        }
        None => {
            if let Some(z) = m.zombie_for(room) {
                m.zombies.remove(z);
                m.labels.insert("unlock:double(cleanup+task)-of-free-room");
            } else if m.circ.iter().any(|c| c.ever_held.contains(&room)) {
                m.labels.insert("unlock:double-of-free-room");
            } else {
                m.labels.insert("unlock:of-room-never-held");
            }
        }
    }
    ex.unlock(room).await;
    ex.collect(m, i, true);
}

/// bounded drain, then the probe connection
async fn finish(m: &mut Model, ex: &mut Exec, step: usize) {
    // 1. release whatever live connections hold until nothing changes
    let bound = 4 * (MAX_CIRC + 1) * 3 + 8;
    let mut rounds = 0;
    loop {
        let mut held: Vec<u8> = vec![];
        for c in 0..MAX_CIRC {
            if m.circ[c].live {
                held.extend(m.circ[c].held.iter().cloned());
            }
        }
        if held.is_empty() || m.stopped() {
            break;
        }
        rounds += 1;
        if rounds > bound {
            m.violations.push((
                "drain-does-not-terminate".to_string(),
                format!("still holding {:?} after {} release rounds", held, bound),
            ));
            return;
        }
        for r in held {
            if let Some(h) = m.live_holder(r) {
                m.circ[h as usize].held.remove(&r);
                ex.unlock(r).await;
                ex.collect(m, step, true);
            }
            if m.stopped() {
                return;
            }
        }
    }
    if m.stopped() {
        return;
    }
    // 2. nothing requested by a live connection may be left ungranted
    for c in 0..MAX_CIRC {
        if m.circ[c].live && !m.circ[c].pending_live.is_empty() {
            let p = m.circ[c].pending_live.clone();
            let lost = m.lost_rooms.clone();
            m.violate(
                Kind::Starvation,
                format!(
                    "after releasing everything, circuit {} is still waiting for rooms {:?} (rooms lost with an ended connection: {:?})",
                    c, p, lost
                ),
            );
            return;
        }
    }
    // 3. probe: a new connection asks for every room; nothing is held, so it must receive
    //    min(limit, nrooms) rooms at once and the others as it releases
    let pc = PROBE as usize;
    ex.chans[pc] = Some(mpsc::unbounded_channel());
    m.circ[pc].gen = 1;
    m.circ[pc].live = true;
    let all: Vec<u8> = (0..m.nrooms).collect();
    for r in &all {
        m.circ[pc].pending_live.insert(*r);
        m.circ[pc].pending_circ.insert(*r);
    }
    ex.request(PROBE, &all).await;
    ex.collect(m, step, true);
    if m.stopped() {
        return;
    }
    let expect = m.limit.min(m.nrooms as usize);
    if m.circ[pc].held.len() < expect && m.held_total() < expect {
        // the statement does not ask the service to use every free slot at once: ask again (a
        // repeated request of a waiting connection) before calling the slot lost
        let again: Vec<u8> = m.circ[pc].pending_live.iter().cloned().collect();
        ex.request(PROBE, &again).await;
        ex.collect(m, step, true);
        if m.stopped() {
            return;
        }
    }
    let got = m.circ[pc].held.len();
    // rooms that stale requests of other live connections may have taken are released below
    if got < expect && m.held_total() < expect {
        m.violate(
            Kind::ProbeUnder,
            format!(
                "nothing is held, a new connection asks for {} rooms with limit {}: {} granted at once (rooms lost with an ended connection: {:?})",
                m.nrooms, m.limit, got, m.lost_rooms
            ),
        );
        return;
    }
    let mut rounds = 0;
    loop {
        let mut held: Vec<u8> = vec![];
        for c in 0..=MAX_CIRC {
            if m.circ[c].live {
                held.extend(m.circ[c].held.iter().cloned());
            }
        }
        if held.is_empty() || m.stopped() {
            break;
        }
        rounds += 1;
        if rounds > bound {
            break;
        }
        for r in held {
            if let Some(h) = m.live_holder(r) {
                m.circ[h as usize].held.remove(&r);
                ex.unlock(r).await;
                ex.collect(m, step, true);
            }
            if m.stopped() {
                return;
            }
        }
    }
    if m.stopped() {
        return;
    }
    if !m.circ[pc].pending_live.is_empty() {
        let p = m.circ[pc].pending_live.clone();
        let lost = m.lost_rooms.clone();
        m.violate(
            Kind::ProbeMissing,
            format!(
                "nothing is held, yet a new connection is never granted rooms {:?} (rooms lost with an ended connection: {:?})",
                p, lost
            ),
        );
    }
}
