//! SENSITIVITY SELF-TEST ONLY. A verbatim copy of the actor of
//! `/repo/src/synchronisation/room_locking_service.rs` with numbered mutation points, used only when
//! the environment variable `C20_MUTANT=<n>` is set, to measure which mutants of
//! `/verif/sensitivity/C20/*.diff` the check kills without touching `/repo`.
//! With `C20_MUTANT=0` the copy is unmutated (the check must then be as silent as on the real code).
//! It plays no part in the oracle: the registered commands never set the variable.

use std::collections::{HashMap, HashSet, VecDeque};
use tokio::sync::mpsc;

type Uid = [u8; 16];

pub enum SyncLockMessage {
    RequestLock([u8; 32], VecDeque<Uid>, mpsc::UnboundedSender<Uid>),
    Unlock(Uid),
}

struct PeerLockRequest {
    rooms: VecDeque<Uid>,
    reply: mpsc::UnboundedSender<Uid>,
}

#[derive(Clone)]
pub struct MutantLockService {
    sender: mpsc::Sender<SyncLockMessage>,
}
impl MutantLockService {
    pub fn start(max_lock: usize, mutation: u8) -> Self {
        let (sender, mut receiver) = mpsc::channel::<SyncLockMessage>(2);
        tokio::spawn(async move {
            let mut peer_lock_request: HashMap<[u8; 32], PeerLockRequest> = HashMap::new();
            let mut peer_queue: VecDeque<[u8; 32]> = VecDeque::new();
            let mut locked: HashSet<Uid> = HashSet::new();
            let mut avalaible = max_lock;

            while let Some(msg) = receiver.recv().await {
                match msg {
                    SyncLockMessage::RequestLock(circuit, rooms, reply) => {
                        if let Some(lock_request) = peer_lock_request.get_mut(&circuit) {
                            if mutation != 9 {
                                lock_request.reply = reply;
                            }
                            for room in rooms {
                                // mutant 5: no de-duplication of a repeated request
                                if mutation == 5 || !lock_request.rooms.iter().any(|e| room.eq(e)) {
                                    lock_request.rooms.push_back(room);
                                }
                            }
                        } else {
                            peer_lock_request.insert(circuit, PeerLockRequest { reply, rooms });
                            peer_queue.push_front(circuit);
                        }
                        let avail_iter = avalaible;
                        for _ in 0..avail_iter {
                            Self::acquire_lock(&mut peer_lock_request, &mut peer_queue, &mut locked, &mut avalaible, mutation);
                        }
                    }
                    SyncLockMessage::Unlock(room) => {
                        // mutant 6: an unlock of a free room frees a slot
                        if locked.remove(&room) || mutation == 6 {
                            // mutant 2: the slot is not given back
                            if mutation != 2 {
                                avalaible += 1;
                            }
                            Self::acquire_lock(&mut peer_lock_request, &mut peer_queue, &mut locked, &mut avalaible, mutation);
                        }
                    }
                }
            }
        });
        Self { sender }
    }

    fn acquire_lock(
        peer_lock_request: &mut HashMap<[u8; 32], PeerLockRequest>,
        peer_queue: &mut VecDeque<[u8; 32]>,
        locked: &mut HashSet<Uid>,
        avalaible: &mut usize,
        mutation: u8,
    ) {
        for _ in 0..peer_queue.len() {
            if let Some(peer) = peer_queue.pop_back() {
                if let Some(mut lock_request) = peer_lock_request.remove(&peer) {
                    let mut lock_aquired = false;
                    for _ in 0..lock_request.rooms.len() {
                        if let Some(room) = lock_request.rooms.pop_back() {
                            if locked.contains(&room) {
                                if mutation == 1 {
                                    // mutant 1: the blocked room stays first in line
                                    lock_request.rooms.push_back(room);
                                } else {
                                    lock_request.rooms.push_front(room);
                                }
                            } else if lock_request.reply.send(room).is_ok() || mutation == 11 {
                                // mutant 11: a grant that cannot be delivered still takes the lock
                                // mutant 3: the granted room is not recorded
                                if mutation != 3 {
                                    locked.insert(room);
                                }
                                *avalaible -= 1;
                                lock_aquired = true;
                                break;
                            }
                        }
                    }
                    if !lock_request.rooms.is_empty() {
                        peer_lock_request.insert(peer, lock_request);
                        // mutant 4: a peer with rooms left is not queued again
                        if mutation != 4 {
                            peer_queue.push_front(peer);
                        }
                    }
                    if lock_aquired {
                        break;
                    }
                }
            }
        }
    }

    pub async fn request_locks(&self, circuit_id: [u8; 32], rooms: VecDeque<Uid>, reply: mpsc::UnboundedSender<Uid>) {
        let _ = self.sender.send(SyncLockMessage::RequestLock(circuit_id, rooms, reply)).await;
    }

    pub async fn unlock(&self, room: Uid) {
        let _ = self.sender.send(SyncLockMessage::Unlock(room)).await;
    }
}
