//! Part 2 of C20: the exit paths of a room synchronisation, on the REAL callers.
//!
//! A real `LocalPeerService::start` (main loop, `process_acquired_room`, `cleanup`) runs on the local
//! peer of a two instance world, against a real `RoomLockService`, through an in-memory connection
//! whose answers pass through a relay owned by the harness (it can stall, close or corrupt them).
//! The harness plays the other connections of the instance: it asks the same lock service for rooms
//! under other circuit ids and looks at what it is granted.
//!
//! What is judged (same statement, same signatures as part 1):
//!   * while the synchronisation task of the connection is in flight on room X nobody else is granted X;
//!   * when the connection ends, X is granted to the connection that waits for it;
//!   * a harness connection that holds X (granted, not released) keeps it: no other harness
//!     connection is granted X, and harness connections never hold more rooms than the limit;
//!   * at the end, with every connection gone or released, a probe connection can take every room,
//!     `limit` at once.

use discret::verif as dvv;
use dv::syncworld::SyncWorld;
use dv::world::*;
use dvv::database::system_entities::{AllowedPeer, Peer as SysPeer};
use dvv::network::peer_manager::TokenType;
use dvv::network::ConnectionInfo;
use dvv::peer_connection_service::{PeerConnectionMessage, PeerConnectionService};
use dvv::security::{HardwareFingerprint, Uid};
use dvv::synchronisation::peer_inbound_service::{LocalPeerService, QueryService};
use dvv::synchronisation::peer_outbound_service::{InboundQueryService, RemotePeerHandle};
use dvv::synchronisation::room_locking_service::RoomLockService;
use dvv::synchronisation::{Answer, LocalEvent, Query, QueryProtocol, RemoteEvent};
use serde::{Deserialize, Serialize};
use std::collections::{BTreeSet, HashMap, HashSet, VecDeque};
use std::sync::atomic::AtomicBool;
use std::sync::{Arc, Mutex as StdMutex};
use std::time::Duration;
use tokio::sync::{broadcast, mpsc, Mutex};

#[derive(Serialize, Deserialize, Debug, Clone, Copy, PartialEq, Eq)]
pub enum Scenario {
    /// nothing is cut: the rooms are synchronised, then the connection is closed while idle
    Normal,
    /// the answers stall at the first query of the room synchronisation; the connection is closed
    /// (events end) while the task is in flight; later the answers end too and the task finishes
    CutDuringSync,
    /// the remote sends a room list batch, then a batch that does not parse: the loop exits on the
    /// error while the grant that answered the first batch is still in its channel
    MalformedRoomList,
    /// the room list never completes; events end and then answers end while the loop is busy: the
    /// loop comes back to a `select!` with both the end of events and a grant ready
    BusyThenClosed,
}

#[derive(Serialize, Deserialize, Debug, Clone, PartialEq, Eq)]
pub struct ExitCase {
    pub limit: u8,
    pub scenario: Scenario,
    /// the remote announces new data for the room being synchronised (the connection then waits
    /// for the room it holds)
    pub second_request: bool,
    /// another connection waits for the room being synchronised
    pub competitor: bool,
    /// after the leftover task has finished, a third connection asks for the other room (bound)
    /// instead of the same room (exclusivity)
    pub third_asks_other_room: bool,
    /// the mailbox of the peer service is full when the connection ends (its `disconnect().await`
    /// blocks, so the grant channel outlives `cleanup`)
    pub late: bool,
    /// repetition index (only for the scenario decided by `select!`)
    pub rep: u8,
}

pub fn all_cases() -> Vec<ExitCase> {
    let mut v = vec![];
    for limit in 1..=2u8 {
        for competitor in [false, true] {
            v.push(ExitCase { limit, scenario: Scenario::Normal, second_request: false, competitor, third_asks_other_room: false, late: false, rep: 0 });
        }
        for second_request in [false, true] {
            for competitor in [false, true] {
                for third in [false, true] {
                    for late in [false, true] {
                        v.push(ExitCase { limit, scenario: Scenario::CutDuringSync, second_request, competitor, third_asks_other_room: third, late, rep: 0 });
                    }
                }
            }
        }
        v.push(ExitCase { limit, scenario: Scenario::MalformedRoomList, second_request: false, competitor: false, third_asks_other_room: false, late: false, rep: 0 });
        for rep in 0..4 {
            v.push(ExitCase { limit, scenario: Scenario::BusyThenClosed, second_request: false, competitor: false, third_asks_other_room: false, late: false, rep });
        }
    }
    v
}

struct World {
    rt: tokio::runtime::Runtime,
    w: SyncWorld,
}
// the world is only touched from the thread running the cases
struct WorldCell(StdMutex<Option<World>>);
static WORLD: WorldCell = WorldCell(StdMutex::new(None));

#[derive(Default)]
struct Gate {
    /// queries seen by the serving side: (kind, room)
    queries: Vec<(&'static str, Option<Uid>)>,
    stall_sync: bool,
    stall_roomlist_end: bool,
    inject_malformed: bool,
    stalled: bool,
    /// the relay stops and drops the answer channel
    close: bool,
    roomlist_batches: u32,
}

fn kind_of(q: &Query) -> (&'static str, Option<Uid>) {
    match q {
        Query::ProveIdentity(_) => ("ProveIdentity", None),
        Query::RoomList => ("RoomList", None),
        Query::RoomDefinition(r) => ("RoomDefinition", Some(*r)),
        _ => ("sync", None),
    }
}

#[derive(Default)]
pub struct ExitOutcome {
    pub violations: Vec<(String, String)>,
    pub labels: Vec<String>,
    pub discard: Option<String>,
}
impl ExitOutcome {
    fn label(&mut self, l: &str) {
        if !self.labels.iter().any(|x| x == l) {
            self.labels.push(l.to_string());
        }
    }
}

struct Client {
    circuit: [u8; 32],
    tx: mpsc::UnboundedSender<Uid>,
    rx: mpsc::UnboundedReceiver<Uid>,
    held: BTreeSet<Uid>,
}
impl Client {
    fn new(n: u8) -> Client {
        let (tx, rx) = mpsc::unbounded_channel();
        Client { circuit: [n; 32], tx, rx, held: BTreeSet::new() }
    }
    async fn request(&self, lock: &RoomLockService, rooms: &[Uid]) {
        lock.request_locks(self.circuit, rooms.iter().cloned().collect::<VecDeque<Uid>>(), self.tx.clone()).await;
    }
    /// waits until `n` more grants have arrived or the delay has passed
    async fn wait_grants(&mut self, n: usize, ms: u64) -> Vec<Uid> {
        let mut got = vec![];
        let deadline = tokio::time::Instant::now() + Duration::from_millis(ms);
        while got.len() < n {
            match tokio::time::timeout_at(deadline, self.rx.recv()).await {
                Ok(Some(u)) => {
                    self.held.insert(u);
                    got.push(u);
                }
                _ => break,
            }
        }
        // whatever else is already there
        while let Ok(u) = self.rx.try_recv() {
            self.held.insert(u);
            got.push(u);
        }
        got
    }
    async fn release_all(&mut self, lock: &RoomLockService) {
        let h: Vec<Uid> = self.held.iter().cloned().collect();
        for r in h {
            lock.unlock(r).await;
            self.held.remove(&r);
        }
    }
}

/// asks for every room and releases each as soon as it is granted, until every room has been
/// granted once: the statement says this ends as long as the others release what they are granted
async fn acquire_all(c: &mut Client, lock: &RoomLockService, rooms: &[Uid], limit: usize, o: &mut ExitOutcome) {
    c.request(lock, rooms).await;
    let mut seen: BTreeSet<Uid> = BTreeSet::new();
    let deadline = tokio::time::Instant::now() + Duration::from_secs(8);
    while seen.len() < rooms.len() && tokio::time::Instant::now() < deadline {
        let got = c.wait_grants(1, 100).await;
        if c.held.len() > limit {
            o.violations.push(("bound:held-rooms-exceed-limit".to_string(), format!("{} rooms granted at once to one connection with limit {}", c.held.len(), limit)));
        }
        for g in got {
            if !seen.insert(g) {
                o.violations.push(("grant-without-pending-request".to_string(), "a room is granted twice for one request".to_string()));
            }
        }
        c.release_all(lock).await;
    }
    if seen.len() < rooms.len() {
        o.violations.push((
            "starvation:pending-request-never-granted".to_string(),
            format!("a connection asking for {} rooms while the others release what they are granted obtains {} of them in 8 s", rooms.len(), seen.len()),
        ));
    }
}

async fn wait_until<F: Fn() -> bool>(f: F, ms: u64) -> bool {
    let deadline = tokio::time::Instant::now() + Duration::from_millis(ms);
    loop {
        if f() {
            return true;
        }
        if tokio::time::Instant::now() >= deadline {
            return false;
        }
        tokio::time::sleep(Duration::from_millis(2)).await;
    }
}

pub fn run_exit(case: &ExitCase, scratch: &std::path::Path) -> ExitOutcome {
    let mut guard = WORLD.0.lock().unwrap();
    if guard.is_none() {
        begin_case(1);
        let rt = runtime();
        let dir = scratch.join("c20_exit_world");
        let _ = std::fs::remove_dir_all(&dir);
        std::fs::create_dir_all(&dir).unwrap();
        match rt.block_on(SyncWorld::start(2, 2, &dir)) {
            Ok(w) => *guard = Some(World { rt, w }),
            Err(e) => {
                let mut o = ExitOutcome::default();
                o.discard = Some(format!("world-start:{}", e));
                return o;
            }
        }
    }
    let world = guard.as_ref().unwrap();
    world.rt.block_on(run_exit_async(case, &world.w))
}

async fn run_exit_async(case: &ExitCase, w: &SyncWorld) -> ExitOutcome {
    let mut o = ExitOutcome::default();
    let limit = case.limit.clamp(1, 2) as usize;
    let server = &w.peers[0];
    let local = &w.peers[1];
    let rooms: Vec<Uid> = w.rooms.clone();
    let lock = RoomLockService::start(limit);

    let gate = Arc::new(StdMutex::new(Gate::default()));
    {
        let mut g = gate.lock().unwrap();
        g.stall_sync = case.scenario == Scenario::CutDuringSync;
        g.stall_roomlist_end = case.scenario == Scenario::BusyThenClosed;
        g.inject_malformed = case.scenario == Scenario::MalformedRoomList;
    }

    // --- the in-memory connection: queries of the local peer are served by the real serving code
    let (inner_a_tx, mut inner_a_rx) = mpsc::channel::<Answer>(64);
    let mut handle = RemotePeerHandle {
        allowed_room: HashSet::new(),
        db: server.db.clone(),
        verifying_key: server.verifying_key.clone(),
        reply: inner_a_tx,
    };
    let served_key = Arc::new(Mutex::new(local.verifying_key.clone()));
    let served_ready = Arc::new(AtomicBool::new(true));
    let fingerprint = HardwareFingerprint { id: [7; 16], name: "dv".to_string() };
    let (q_tx, mut q_rx) = mpsc::channel::<QueryProtocol>(64);
    let (a_tx, a_rx) = mpsc::channel::<Answer>(64);
    let qs = QueryService::start(q_tx, a_rx);
    let kinds: Arc<StdMutex<HashMap<u64, &'static str>>> = Arc::new(StdMutex::new(HashMap::new()));

    let g2 = gate.clone();
    let k2 = kinds.clone();
    let fp2 = fingerprint.clone();
    let server_task = tokio::spawn(async move {
        while let Some(msg) = q_rx.recv().await {
            let (kind, room) = kind_of(&msg.query);
            k2.lock().unwrap().insert(msg.id, kind);
            g2.lock().unwrap().queries.push((kind, room));
            if InboundQueryService::process_inbound(msg, &mut handle, &served_key, &served_ready, &fp2).await.is_err() {
                break;
            }
        }
    });
    let g3 = gate.clone();
    let relay_task = tokio::spawn(async move {
        while let Some(a) = inner_a_rx.recv().await {
            let kind = kinds.lock().unwrap().get(&a.id).copied().unwrap_or("?");
            let is_sync = kind == "RoomDefinition" || kind == "sync";
            let (stall, malformed) = {
                let mut g = g3.lock().unwrap();
                let mut malformed = false;
                if kind == "RoomList" && a.success && !a.complete {
                    g.roomlist_batches += 1;
                    malformed = g.inject_malformed;
                }
                let stall = (is_sync && g.stall_sync) || (kind == "RoomList" && a.complete && g.stall_roomlist_end);
                (stall, malformed)
            };
            if stall {
                g3.lock().unwrap().stalled = true;
                // hold every further answer until the harness ends the connection
                loop {
                    if g3.lock().unwrap().close {
                        return;
                    }
                    tokio::time::sleep(Duration::from_millis(2)).await;
                }
            }
            let id = a.id;
            if a_tx.send(a).await.is_err() {
                return;
            }
            if malformed {
                // leave the lock service the time to answer the request made for the first batch
                tokio::time::sleep(Duration::from_millis(60)).await;
                let _ = a_tx.send(Answer { id, success: true, complete: false, serialized: vec![0xFF] }).await;
            }
            if g3.lock().unwrap().close {
                return;
            }
        }
    });

    // --- the other ends handed to LocalPeerService::start
    let (ev_tx, ev_rx) = mpsc::channel::<RemoteEvent>(16);
    let (out_tx, mut out_rx) = mpsc::channel::<RemoteEvent>(16);
    let (local_ev_tx, local_ev_rx) = broadcast::channel::<LocalEvent>(16);
    let (ps_tx, mut ps_rx) = mpsc::channel::<PeerConnectionMessage>(4);
    let peer_service = PeerConnectionService { sender: ps_tx.clone() };
    let ps_open = Arc::new(AtomicBool::new(true));
    let ps_open2 = ps_open.clone();
    let disconnected = Arc::new(AtomicBool::new(false));
    let disc2 = disconnected.clone();
    let ps_task = tokio::spawn(async move {
        loop {
            if ps_open2.load(std::sync::atomic::Ordering::SeqCst) {
                match tokio::time::timeout(Duration::from_millis(5), ps_rx.recv()).await {
                    Ok(Some(PeerConnectionMessage::PeerDisconnected(_, c, _))) => {
                        if c == [0xC0u8; 32] {
                            disc2.store(true, std::sync::atomic::Ordering::SeqCst);
                        }
                    }
                    Ok(None) => break,
                    _ => {}
                }
            } else {
                tokio::time::sleep(Duration::from_millis(2)).await;
            }
        }
    });
    let circuit = [0xC0u8; 32];
    let conn_id: Uid = [3; 16];
    let (_dummy_q_tx, dummy_q_rx) = mpsc::channel::<QueryProtocol>(4);
    let (dummy_a_tx, _dummy_a_rx) = mpsc::channel::<Answer>(4);
    let remote_key = Arc::new(Mutex::new(Vec::<u8>::new()));
    let conn_ready = Arc::new(AtomicBool::new(true));
    let inbound = InboundQueryService::start(
        fingerprint.clone(),
        circuit,
        conn_id,
        RemotePeerHandle {
            allowed_room: HashSet::new(),
            db: local.db.clone(),
            verifying_key: local.verifying_key.clone(),
            reply: dummy_a_tx,
        },
        dummy_q_rx,
        peer_service.clone(),
        remote_key.clone(),
        conn_ready.clone(),
    );
    let connection_info = ConnectionInfo {
        endpoint_id: [1; 16],
        remote_id: [2; 16],
        conn_id,
        meeting_token: [0; 7],
        peer_verifying_key: server.verifying_key.clone(),
    };
    let token = TokenType::AllowedPeer(AllowedPeer {
        peer: SysPeer { id: String::new(), verifying_key: b64(&server.verifying_key) },
        meeting_token: String::new(),
    });
    let services = local.services();
    LocalPeerService::start(
        ev_rx,
        local_ev_rx,
        circuit,
        connection_info,
        local.verifying_key.clone(),
        token,
        remote_key.clone(),
        conn_ready.clone(),
        lock.clone(),
        qs,
        out_tx,
        peer_service.clone(),
        inbound,
        &services,
    );

    // the connection proves the identity of the remote, then announces it is ready
    let ready = matches!(tokio::time::timeout(Duration::from_secs(5), out_rx.recv()).await, Ok(Some(RemoteEvent::Ready)));
    if !ready {
        o.discard = Some("connection-initialisation-failed".to_string());
        gate.lock().unwrap().close = true;
        server_task.abort();
        relay_task.abort();
        ps_task.abort();
        return o;
    }
    let mut ev_tx = Some(ev_tx);
    let _ = ev_tx.as_ref().unwrap().send(RemoteEvent::Ready).await;

    let mut h1 = Client::new(0xA1);
    let mut h2 = Client::new(0xA2);
    let mut probe = Client::new(0xA3);
    let mut lost_cause: Option<&'static str> = None;
    let mut double_unlock = false;

    match case.scenario {
        Scenario::Normal => {
            o.label("exit:normal-end-of-synchronisation");
            if case.competitor {
                // contend with the connection from the start
                o.label("exit:competitor-contends-during-normal-synchronisation");
                acquire_all(&mut h1, &lock, &rooms, limit, &mut o).await;
            }
            // every room is synchronised in turn
            let g = gate.clone();
            let n = rooms.len();
            let all_seen = wait_until(move || g.lock().unwrap().queries.iter().filter(|q| q.0 == "RoomDefinition").count() >= n, 8000).await;
            if !all_seen {
                o.discard = Some("rooms-not-synchronised-in-time".to_string());
            } else {
                // every task has started; once another connection has been granted every room, every
                // task has also finished and released its room
                acquire_all(&mut h2, &lock, &rooms, limit, &mut o).await;
            }
            tokio::time::sleep(Duration::from_millis(20)).await;
            ev_tx = None;
        }
        Scenario::CutDuringSync => {
            o.label("exit:connection-closed-during-room-synchronisation");
            let g = gate.clone();
            if !wait_until(move || g.lock().unwrap().stalled, 5000).await {
                o.discard = Some("never-reached-the-stall".to_string());
            }
            tokio::time::sleep(Duration::from_millis(30)).await;
            // rooms whose task is in flight: a RoomDefinition query was sent, no answer came back
            let inflight: Vec<Uid> = gate.lock().unwrap().queries.iter().filter(|q| q.0 == "RoomDefinition").filter_map(|q| q.1).collect();
            if inflight.is_empty() || inflight.len() > limit {
                if inflight.len() > limit {
                    o.violations.push((
                        "bound:held-rooms-exceed-limit".to_string(),
                        format!("{} room synchronisations in flight at once with limit {}", inflight.len(), limit),
                    ));
                }
                o.discard = Some(format!("inflight={}", inflight.len()));
            } else {
                let x = inflight[0];
                let other: Option<Uid> = rooms.iter().cloned().find(|r| *r != x);
                if case.second_request {
                    o.label("exit:connection-waits-for-the-room-it-holds");
                    let _ = ev_tx.as_ref().unwrap().send(RemoteEvent::RoomDataChanged(x)).await;
                    tokio::time::sleep(Duration::from_millis(30)).await;
                }
                if case.competitor {
                    h1.request(&lock, &[x]).await;
                    let got = h1.wait_grants(1, 60).await;
                    if !got.is_empty() {
                        o.violations.push((
                            "exclusive:room-granted-while-held".to_string(),
                            "a second connection is granted the room whose synchronisation task is in flight".to_string(),
                        ));
                    }
                }
                if case.late {
                    o.label("exit:peer-service-mailbox-full");
                    ps_open.store(false, std::sync::atomic::Ordering::SeqCst);
                    tokio::time::sleep(Duration::from_millis(10)).await;
                    while ps_tx.try_send(PeerConnectionMessage::SendAnnounce()).is_ok() {}
                }
                // the connection ends: events end, the loop exits, cleanup unlocks what was acquired
                ev_tx = None;
                let mut granted_before_task_end = false;
                if case.competitor && h1.held.is_empty() {
                    let got = h1.wait_grants(1, 400).await;
                    if !got.is_empty() {
                        granted_before_task_end = true;
                        o.label("exit:waiting-connection-granted-after-cleanup");
                    }
                } else {
                    tokio::time::sleep(Duration::from_millis(60)).await;
                }
                // now the answers end too: the leftover task gets its error and unlocks its room
                gate.lock().unwrap().close = true;
                if case.competitor && !granted_before_task_end && h1.held.is_empty() {
                    // a release at the end of the task would do as well
                    let got = h1.wait_grants(1, 3000).await;
                    if got.is_empty() {
                        // the room was unlocked and handed to somebody who will never use it
                        lost_cause = Some("granted-to-ending-connection");
                        o.violations.push((
                            "lost-lock:granted-to-ending-connection".to_string(),
                            "the connection ended during the synchronisation of a room and its task has ended too; the connection waiting for that room is never granted it".to_string(),
                        ));
                    } else {
                        o.label("exit:waiting-connection-granted-after-task-end");
                    }
                }
                tokio::time::sleep(Duration::from_millis(80)).await;
                let target = if case.third_asks_other_room { other.unwrap_or(x) } else { x };
                let h1_holds_x = h1.held.contains(&x);
                h2.request(&lock, &[target]).await;
                let got = h2.wait_grants(1, 80).await;
                if h1_holds_x {
                    let twice = granted_before_task_end;
                    if twice {
                        o.label("exit:leftover-task-unlocks-room-held-by-other");
                    }
                    if !got.is_empty() && target == x {
                        o.violations.push((
                            if twice { "unlock-has-no-owner:double-unlock:exclusive" } else { "exclusive:room-granted-while-held" }.to_string(),
                            "cleanup unlocked the room, a waiting connection was granted it, the leftover synchronisation task unlocked it again, a third connection is granted it while the second still holds it".to_string(),
                        ));
                    } else if h1.held.len() + h2.held.len() > limit {
                        o.violations.push((
                            if twice { "unlock-has-no-owner:double-unlock:bound" } else { "bound:held-rooms-exceed-limit" }.to_string(),
                            format!("after the second unlock of the same room {} rooms are held at once with limit {}", h1.held.len() + h2.held.len(), limit),
                        ));
                    }
                }
                double_unlock = granted_before_task_end;
            }
        }
        Scenario::MalformedRoomList => {
            o.label("exit:loop-exits-on-error-with-grant-unread");
            // the relay injects the malformed batch by itself; wait for the end of the connection
            let d = disconnected.clone();
            if !wait_until(move || d.load(std::sync::atomic::Ordering::SeqCst), 5000).await {
                o.discard = Some("connection-did-not-end".to_string());
            }
            lost_cause = Some("grant-unread-at-loop-exit");
        }
        Scenario::BusyThenClosed => {
            o.label("exit:end-of-events-and-grant-both-ready");
            let g = gate.clone();
            if !wait_until(move || g.lock().unwrap().stalled, 5000).await {
                o.discard = Some("never-reached-the-stall".to_string());
            }
            tokio::time::sleep(Duration::from_millis(40)).await;
            ev_tx = None;
            tokio::time::sleep(Duration::from_millis(10)).await;
            gate.lock().unwrap().close = true;
            lost_cause = Some("grant-unread-at-loop-exit");
        }
    }
    drop(ev_tx);
    gate.lock().unwrap().close = true;

    // --- end: everybody releases, the connection is gone, a probe takes every room
    if o.discard.is_none() {
        tokio::time::sleep(Duration::from_millis(60)).await;
        h1.release_all(&lock).await;
        h2.release_all(&lock).await;
        let _ = h1.wait_grants(1, 30).await;
        let _ = h2.wait_grants(1, 30).await;
        h1.release_all(&lock).await;
        h2.release_all(&lock).await;
        // let the loop task finish
        ps_open.store(true, std::sync::atomic::Ordering::SeqCst);
        let d = disconnected.clone();
        let ended = wait_until(move || d.load(std::sync::atomic::Ordering::SeqCst), 3000).await;
        if !ended {
            o.label("exit:no-disconnect-message-seen");
        }
        tokio::time::sleep(Duration::from_millis(60)).await;
        if std::env::var("C20_DEBUG").is_ok() {
            // which room is stuck: ask for each room alone
            for (i, r) in rooms.iter().enumerate() {
                let mut c = Client::new(0xB0 + i as u8);
                c.request(&lock, &[*r]).await;
                let g = c.wait_grants(1, 300).await;
                eprintln!("debug: room {} alone -> granted {}; queries seen {:?}", i, g.len(), gate.lock().unwrap().queries.iter().map(|q| (q.0, q.1.map(|u| rooms.iter().position(|x| *x == u)))).collect::<Vec<_>>());
                c.release_all(&lock).await;
            }
        }
        probe.request(&lock, &rooms).await;
        let expect = limit.min(rooms.len());
        let mut got = probe.wait_grants(expect, 1500).await.len();
        if got < expect {
            probe.request(&lock, &rooms).await;
            got += probe.wait_grants(expect - got, 300).await.len();
        }
        if got > limit {
            let sig = if double_unlock { "unlock-has-no-owner:double-unlock:bound" } else { "bound:held-rooms-exceed-limit" };
            o.violations.push((sig.to_string(), format!("a new connection is granted {} rooms at once with limit {}", got, limit)));
        } else if got < expect {
            let sig = match lost_cause {
                Some(c) => format!("lost-lock:{}", c),
                None => {
                    if case.scenario == Scenario::CutDuringSync {
                        "lost-lock:granted-to-ending-connection".to_string()
                    } else {
                        "slot-leak:fewer-rooms-at-once-than-limit".to_string()
                    }
                }
            };
            o.violations.push((
                sig,
                format!("every connection has ended or released its rooms; a new connection asking for {} rooms with limit {} is granted {}", rooms.len(), limit, got),
            ));
        } else {
            // release and take the others
            let mut total: BTreeSet<Uid> = probe.held.clone();
            for _ in 0..rooms.len() {
                probe.release_all(&lock).await;
                let more = probe.wait_grants(1, 200).await;
                total.extend(more);
                if total.len() == rooms.len() {
                    break;
                }
            }
            probe.release_all(&lock).await;
            if total.len() < rooms.len() {
                let sig = match lost_cause {
                    Some(c) => format!("lost-lock:{}", c),
                    None => "room-stuck:free-room-never-granted".to_string(),
                };
                o.violations.push((sig, format!("a new connection obtains only {} of {} rooms", total.len(), rooms.len())));
            } else {
                o.label("exit:every-room-available-at-the-end");
            }
        }
    }
    // dedupe signatures
    let mut seen = BTreeSet::new();
    o.violations.retain(|v| seen.insert(v.0.clone()));
    drop(local_ev_tx);
    server_task.abort();
    relay_task.abort();
    ps_task.abort();
    o
}
