use dv::engine::*;
use dv::props::sync::*;
use proptest::strategy::BoxedStrategy;

struct C11;
impl Property for C11 {
    type Case = SyncCase;
    const ID: &'static str = "C11";
    fn plan(tier: Tier) -> Plan {
        match tier {
            Tier::Quick => Plan { shards: 16, cases_per_shard: 80, max_shrink_iters: 200 },
            Tier::Thorough => Plan { shards: 16, cases_per_shard: 2500, max_shrink_iters: 400 },
        }
    }
    fn strategy(tier: Tier) -> BoxedStrategy<SyncCase> {
        match tier {
            Tier::Quick => case_strategy(40, 4, true),
            Tier::Thorough => case_strategy(70, 4, true),
        }
    }
    fn run(case: &SyncCase, ctx: &RunCtx) -> Outcome {
        let r = run_sync_case(case, ctx, false);
        let mut o = Outcome::default();
        o.labels = r.labels;
        o.nontrivial = r.nontrivial_c11;
        o.counters = r.counters;
        o.violations = r.c11;
        if let Some(e) = r.error {
            o.discard = Some(format!("world-start:{}", e));
        }
        o
    }
    fn rule() -> String {
        "proptest-generated histories over 2-4 real instances, biased towards deletions of rows and references and towards pulls; after EVERY step each peer is checked: no stored node at a version <= a deletion record it stores, no stored reference with creation date <= a stored reference-deletion record; at quiescence every deleted row is absent and its record present on every peer; non-trivial = the history contains a deletion and a later pull in which the puller holds a deletion record the server lacks (stale server); distinct = distinct case digest".to_string()
    }
    fn assumptions() -> Vec<String> {
        vec![
            "in-memory link between the real QueryService and process_inbound".into(),
            "a version newer than the deleted one (concurrent update) may legitimately stay visible: only versions <= the deleted version are judged".into(),
        ]
    }
}
fn main() {
    main_for::<C11>()
}
