//! C13: writes are atomic, durable once acknowledged, and leave the log repairable.
//!
//! A workload runs in a CHILD process that prints one flushed line per submitted / acknowledged
//! request; a fault plan (hook H5) kills the process or makes a statement group fail at the k-th hit
//! of an instrumented point of the write path. The parent then reopens the data folder.
use discret::verif as dvv;
use dv::engine::*;
use dv::syncworld::MODEL;
use dv::world::*;
use proptest::prelude::*;
use serde::{Deserialize, Serialize};
use std::collections::{BTreeMap, BTreeSet};
use std::io::Write;

struct C13;

#[derive(Clone, Debug, Serialize, Deserialize, PartialEq)]
pub enum WOp {
    Tick { ms: u32 },
    /// one mutation writing three rows and two references (tag = op index)
    CreateTree,
    /// `n` CreateTree requests in flight together (they share write batches)
    Burst { n: u8 },
    /// one mutation updating two existing rows
    UpdatePair { a: u16, b: u16 },
    DeleteNode { row: u16 },
    DeleteLink { row: u16 },
    /// room mutation: the admin adds a user entry
    RoomChange,
    /// one mutation holding a room change followed by a tree of data rows (written as a room mutation)
    RoomChangeWithTree,
    /// the instance pulls the feeder's rows (synchronised batches)
    Ingest,
    Recompute,
}

/// instrumented points; the last four only accept a process abort
const POINTS: [&str; 12] = [
    "batch_begin", "node_write", "edge_write", "node_deletion_write", "edge_deletion_write", "marks_write",
    "room_changelog", "compute", "before_request", "before_marks", "before_commit", "after_commit",
];
const ABORT_ONLY: [&str; 5] = ["before_request", "before_marks", "before_commit", "after_commit", "before_ack"];

#[derive(Clone, Debug, Serialize, Deserialize)]
pub struct Fault {
    pub point: u8,
    /// which hit, as a fraction of the hits counted in the fault-free run
    pub hit: u16,
    pub abort: bool,
}

#[derive(Clone, Debug, Serialize, Deserialize)]
pub struct Case {
    pub ops: Vec<WOp>,
    pub faults: Vec<Fault>,
}

#[derive(Serialize, Deserialize)]
struct ChildSpec {
    dir: String,
    ops: Vec<WOp>,
    plan: Option<(String, u64, bool)>,
}

fn strategy(max_ops: usize, faults: usize) -> BoxedStrategy<Case> {
    let op = prop_oneof![
        1 => prop_oneof![1u32..500, (DAY as u32)..(DAY as u32 + 5000)].prop_map(|ms| WOp::Tick { ms }),
        4 => Just(WOp::CreateTree),
        2 => (2u8..5).prop_map(|n| WOp::Burst { n }),
        3 => (any::<u16>(), any::<u16>()).prop_map(|(a, b)| WOp::UpdatePair { a, b }),
        2 => any::<u16>().prop_map(|row| WOp::DeleteNode { row }),
        1 => any::<u16>().prop_map(|row| WOp::DeleteLink { row }),
        1 => Just(WOp::RoomChange),
        1 => Just(WOp::RoomChangeWithTree),
        1 => Just(WOp::Ingest),
        1 => Just(WOp::Recompute),
    ];
    let fault = (0u8..(POINTS.len() as u8 + 1), any::<u16>(), any::<bool>()).prop_map(|(point, hit, abort)| Fault { point, hit, abort });
    (proptest::collection::vec(op, 4..max_ops), proptest::collection::vec(fault, faults..=faults))
        .prop_map(|(mut ops, faults)| {
            ops.insert(0, WOp::CreateTree);
            Case { ops, faults }
        })
        .boxed()
}

// ------------------------------------------------------------------------------------------------
// child
// ------------------------------------------------------------------------------------------------

fn say(line: String) {
    let out = std::io::stdout();
    let mut o = out.lock();
    let _ = writeln!(o, "{}", line);
    let _ = o.flush();
}

fn child_main(spec_path: &str) -> ! {
    let spec: ChildSpec = serde_json::from_str(&std::fs::read_to_string(spec_path).unwrap()).unwrap();
    begin_case(1);
    let rt = runtime();
    rt.block_on(async {
        let dir = std::path::PathBuf::from(&spec.dir);
        let a = Peer::start("main", MODEL, dir.join("a")).await.expect("start main");
        let feeder = Peer::start("feeder", MODEL, dir.join("f")).await.expect("start feeder");
        // room: admin = main, users = main + feeder
        Clock::advance(1);
        let mut p = Parameters::new();
        p.add("me", a.key64()).unwrap();
        p.add("f", feeder.key64()).unwrap();
        let res = a
            .mutate(
                "mutate { sys.Room { admin:[{verif_key:$me}] authorisations:[{ name:\"g\" rights:[{entity:\"*\" mutate_self:true mutate_all:true}] users:[{verif_key:$me},{verif_key:$f}] }] } }",
                Some(p),
            )
            .await
            .expect("room");
        let v: serde_json::Value = serde_json::from_str(&res).unwrap();
        let room = v["sys.Room"]["id"].as_str().unwrap().to_string();
        let auth = v["sys.Room"]["authorisations"][0]["id"].as_str().unwrap().to_string();
        Clock::advance(1);
        let _ = pull(&feeder, &a, &PullOptions::default()).await;
        // feeder content: two days, two entities
        for d in 0..2 {
            for i in 0..3 {
                Clock::advance(3);
                let mut p = Parameters::new();
                p.add("room", room.clone()).unwrap();
                p.add("t", format!("feed-{}-{}", d, i)).unwrap();
                let q = if i == 2 { "mutate { app.Note { room_id:$room text:$t } }" } else { "mutate { app.Item { room_id:$room name:$t parent:{ name:$t } } }" };
                feeder.mutate(q, Some(p)).await.expect("feeder row");
            }
            Clock::advance(DAY);
        }
        feeder.recompute().await;
        a.fence().await;
        say(format!("ROOM {} {}", room, auth));
        // the plan covers the workload only
        if let Some((point, hit, abort)) = &spec.plan {
            dvv::set_fault_plan(Some(dvv::FaultPlan {
                point: point.clone(),
                hit: *hit,
                action: if *abort { dvv::FaultAction::Abort } else { dvv::FaultAction::Error },
            }));
        } else {
            dvv::set_fault_plan(None);
        }
        let mut rows: Vec<String> = vec![]; // ids of acknowledged tree roots
        for (i, op) in spec.ops.iter().enumerate() {
            Clock::advance(2);
            match op {
                WOp::Tick { ms } => {
                    Clock::advance(*ms as i64);
                }
                WOp::CreateTree | WOp::Burst { .. } => {
                    let n = if let WOp::Burst { n } = op { *n as usize } else { 1 };
                    let mut futs = vec![];
                    for j in 0..n {
                        let tag = format!("op{}x{}", i, j);
                        say(format!("SUBMIT {} tree {}", i, tag));
                        let mut p = Parameters::new();
                        p.add("room", room.clone()).unwrap();
                        p.add("a", format!("{}-a", tag)).unwrap();
                        p.add("b", format!("{}-b", tag)).unwrap();
                        p.add("c", format!("{}-c", tag)).unwrap();
                        let ap = &a;
                        futs.push(async move {
                            (tag, ap.mutate("mutate { app.Item { room_id:$room name:$a parent:{ name:$b } links:[{ name:$c }] } }", Some(p)).await)
                        });
                    }
                    for (tag, r) in futures::future::join_all(futs).await {
                        match r {
                            Ok(js) => {
                                let v: serde_json::Value = serde_json::from_str(&js).unwrap();
                                let id = v["app.Item"]["id"].as_str().unwrap().to_string();
                                rows.push(id.clone());
                                say(format!("ACK {} ok tree {} {}", i, tag, id));
                            }
                            Err(e) => say(format!("ACK {} err tree {} {}", i, tag, e.replace('\n', " "))),
                        }
                    }
                }
                WOp::UpdatePair { a: ra, b: rb } => {
                    if rows.len() < 2 {
                        continue;
                    }
                    let (ia, ib) = (pick(*ra, rows.len()), pick(*rb, rows.len()));
                    if ia == ib {
                        continue;
                    }
                    let v = 1000 + i as i64;
                    say(format!("SUBMIT {} update {} {} {}", i, rows[ia], rows[ib], v));
                    let mut p = Parameters::new();
                    p.add("a", rows[ia].clone()).unwrap();
                    p.add("b", rows[ib].clone()).unwrap();
                    p.add("v", v).unwrap();
                    match a.mutate("mutate { A: app.Item { id:$a num:$v } B: app.Item { id:$b num:$v } }", Some(p)).await {
                        Ok(_) => say(format!("ACK {} ok update", i)),
                        Err(e) => say(format!("ACK {} err update {}", i, e.replace('\n', " "))),
                    }
                }
                WOp::DeleteNode { row } => {
                    if rows.is_empty() {
                        continue;
                    }
                    let id = rows.remove(pick(*row, rows.len()));
                    say(format!("SUBMIT {} delete {}", i, id));
                    let mut p = Parameters::new();
                    p.add("id", id.clone()).unwrap();
                    match a.delete("delete { app.Item { $id } }", Some(p)).await {
                        Ok(_) => say(format!("ACK {} ok delete", i)),
                        Err(e) => say(format!("ACK {} err delete {}", i, e.replace('\n', " "))),
                    }
                }
                WOp::DeleteLink { row } => {
                    if rows.is_empty() {
                        continue;
                    }
                    let id = rows[pick(*row, rows.len())].clone();
                    let mut qp = Parameters::new();
                    qp.add("id", id.clone()).unwrap();
                    let tid = match a.query("query { app.Item(id=$id) { links { id } } }", Some(qp)).await {
                        Ok(js) => {
                            let v: serde_json::Value = serde_json::from_str(&js).unwrap();
                            v["app.Item"][0]["links"][0]["id"].as_str().map(|s| s.to_string())
                        }
                        Err(_) => None,
                    };
                    let Some(tid) = tid else { continue };
                    say(format!("SUBMIT {} unlink {} {}", i, id, tid));
                    let mut p = Parameters::new();
                    p.add("id", id).unwrap();
                    p.add("tid", tid).unwrap();
                    match a.delete("delete { app.Item { $id links[$tid] } }", Some(p)).await {
                        Ok(_) => say(format!("ACK {} ok unlink", i)),
                        Err(e) => say(format!("ACK {} err unlink {}", i, e.replace('\n', " "))),
                    }
                }
                WOp::RoomChange => {
                    let k = b64(&{
                        use dvv::security::SigningKey;
                        signing_key_for_secret(&secret_for(&format!("paper{}", i))).export_verifying_key()
                    });
                    say(format!("SUBMIT {} roomchange {}", i, k));
                    let mut p = Parameters::new();
                    p.add("room", room.clone()).unwrap();
                    p.add("g", auth.clone()).unwrap();
                    p.add("k", k).unwrap();
                    match a.mutate("mutate { sys.Room { id:$room authorisations:[{ id:$g users:[{verif_key:$k}] }] } }", Some(p)).await {
                        Ok(_) => say(format!("ACK {} ok roomchange", i)),
                        Err(e) => say(format!("ACK {} err roomchange {}", i, e.replace('\n', " "))),
                    }
                }
                WOp::RoomChangeWithTree => {
                    let k = b64(&{
                        use dvv::security::SigningKey;
                        signing_key_for_secret(&secret_for(&format!("paper{}", i))).export_verifying_key()
                    });
                    let tag = format!("op{}x0", i);
                    say(format!("SUBMIT {} tree {}", i, tag));
                    let mut p = Parameters::new();
                    p.add("room", room.clone()).unwrap();
                    p.add("rid", room.clone()).unwrap();
                    p.add("g", auth.clone()).unwrap();
                    p.add("k", k).unwrap();
                    p.add("a", format!("{}-a", tag)).unwrap();
                    p.add("b", format!("{}-b", tag)).unwrap();
                    p.add("c", format!("{}-c", tag)).unwrap();
                    match a
                        .mutate(
                            "mutate { sys.Room { id:$rid authorisations:[{ id:$g users:[{verif_key:$k}] }] } app.Item { room_id:$room name:$a parent:{ name:$b } links:[{ name:$c }] } }",
                            Some(p),
                        )
                        .await
                    {
                        Ok(js) => {
                            let v: serde_json::Value = serde_json::from_str(&js).unwrap();
                            let id = v["app.Item"]["id"].as_str().unwrap().to_string();
                            rows.push(id.clone());
                            say(format!("ACK {} ok tree {} {}", i, tag, id));
                        }
                        Err(e) => say(format!("ACK {} err tree {} {}", i, tag, e.replace('\n', " "))),
                    }
                }
                WOp::Ingest => {
                    say(format!("SUBMIT {} ingest", i));
                    let st = pull(&a, &feeder, &PullOptions::default()).await;
                    if st.sync_errors.is_empty() {
                        say(format!("ACK {} ok ingest", i));
                    } else {
                        say(format!("ACK {} err ingest {}", i, st.sync_errors.join(" | ").replace('\n', " ")));
                    }
                }
                WOp::Recompute => {
                    say(format!("SUBMIT {} recompute", i));
                    a.recompute().await;
                    say(format!("ACK {} ok recompute", i));
                }
            }
            a.fence().await;
        }
        a.fence().await;
        say(format!("COUNTS {}", serde_json::to_string(&dvv::fault_counts()).unwrap()));
        say(format!("FIRED {}", dvv::fault_fired()));
        say(format!("CLOCK {}", Clock::get()));
        say("DONE".to_string());
    });
    std::process::exit(0)
}

// ------------------------------------------------------------------------------------------------
// parent
// ------------------------------------------------------------------------------------------------

#[derive(Default, Debug)]
struct Transcript {
    room: String,
    submitted: Vec<(usize, String)>,
    acked: Vec<(usize, bool, String)>,
    counts: BTreeMap<String, u64>,
    fired: bool,
    done: bool,
    clock: i64,
    exit: Option<i32>,
}

fn run_child(ctx: &RunCtx, dir: &std::path::Path, ops: &[WOp], plan: Option<(String, u64, bool)>) -> Transcript {
    let spec = ChildSpec { dir: dir.to_string_lossy().to_string(), ops: ops.to_vec(), plan };
    let spec_path = ctx.scratch.join(format!("spec{}.json", ctx.case_index));
    std::fs::write(&spec_path, serde_json::to_string(&spec).unwrap()).unwrap();
    let out = std::process::Command::new(std::env::current_exe().unwrap())
        .env("C13_CHILD", &spec_path)
        .stderr(std::process::Stdio::null())
        .output()
        .expect("child");
    let mut t = Transcript { exit: out.status.code(), ..Default::default() };
    for line in String::from_utf8_lossy(&out.stdout).lines() {
        let mut it = line.splitn(3, ' ');
        match it.next() {
            Some("ROOM") => t.room = it.next().unwrap_or("").to_string(),
            Some("SUBMIT") => {
                let i: usize = it.next().unwrap().parse().unwrap();
                t.submitted.push((i, it.next().unwrap_or("").to_string()));
            }
            Some("ACK") => {
                let i: usize = it.next().unwrap().parse().unwrap();
                let rest = it.next().unwrap_or("");
                t.acked.push((i, rest.starts_with("ok"), rest.to_string()));
            }
            Some("COUNTS") => {
                let rest = line[7..].to_string();
                if let Ok(v) = serde_json::from_str::<Vec<(String, u64)>>(&rest) {
                    t.counts = v.into_iter().collect();
                }
            }
            Some("FIRED") => t.fired = line.ends_with("true"),
            Some("CLOCK") => t.clock = line[6..].parse().unwrap_or(0),
            Some("DONE") => t.done = true,
            _ => {}
        }
    }
    let _ = std::fs::remove_file(&spec_path);
    t
}

type Key = (String, String, i64);
fn log_model(s: &Snapshot) -> BTreeMap<Key, (i64, String)> {
    let mut sigs: BTreeMap<Key, Vec<Vec<u8>>> = BTreeMap::new();
    let day = |t: i64| t.div_euclid(DAY) * DAY;
    for n in &s.nodes {
        if let Some(r) = &n.room {
            sigs.entry((r.clone(), n.entity.clone(), day(n.mdate))).or_default().push(unb64(&n.sig));
        }
    }
    for d in &s.node_dels {
        sigs.entry((d.room.clone(), d.entity.clone(), day(d.deletion_date))).or_default().push(unb64(&d.sig));
    }
    for d in &s.edge_dels {
        sigs.entry((d.room.clone(), d.src_entity.clone(), day(d.deletion_date))).or_default().push(unb64(&d.sig));
    }
    let mut out = BTreeMap::new();
    for (k, mut v) in sigs {
        v.sort();
        let mut h = blake3::Hasher::new();
        for s in &v {
            h.update(s);
        }
        out.insert(k, (v.len() as i64, b64(h.finalize().as_bytes())));
    }
    out
}

/// checks the reopened folder against the transcript of the faulted run
fn verify(dir: &std::path::Path, t: &Transcript, plan: &(String, u64, bool), o: &mut Outcome, seen: &mut BTreeSet<String>) {
    let how = if plan.2 { "abort" } else { "error" };
    let mut vio = |sig: String, detail: String, o: &mut Outcome| {
        if seen.insert(sig.clone()) {
            o.violation(sig, format!("fault {}@{}#{}: {}", how, plan.0, plan.1, detail));
        }
    };
    if t.room.is_empty() {
        return;
    }
    // an injected statement error must not wedge the instance: later requests are answered normally
    if !plan.2 && t.fired {
        let mut after_fault = false;
        let mut failed_later = 0;
        let mut first_failed_batch: Option<usize> = None;
        for (i, ok, what) in &t.acked {
            if !ok && !after_fault {
                after_fault = true;
                first_failed_batch = Some(*i);
                continue;
            }
            if after_fault && !ok && Some(*i) != first_failed_batch {
                failed_later += 1;
                let _ = what;
            }
        }
        if failed_later > 0 {
            vio(
                format!("instance-wedged-after-failed-batch:{}", plan.0),
                format!("{} later requests failed too: {:?}", failed_later, t.acked.iter().filter(|a| !a.1).take(3).collect::<Vec<_>>()),
                o,
            );
        }
        if !t.done {
            vio(format!("process-died-on-injected-error:{}", plan.0), format!("exit {:?}", t.exit), o);
        }
    }
    Clock::set(t.clock.max(T0 + 10 * DAY) + 1000);
    let rt = runtime();
    let res: Result<Snapshot, String> = rt.block_on(async {
        let a = Peer::start("main", MODEL, dir.join("a")).await?;
        a.fence().await;
        a.fence().await;
        Ok(a.snapshot().await)
    });
    drop(rt);
    let snap = match res {
        Err(e) => {
            vio(format!("restart-fails-after-fault:{}", how), e, o);
            return;
        }
        Ok(s) => s,
    };
    let name_of = |n: &NodeRow| -> String {
        n.json
            .as_ref()
            .and_then(|j| serde_json::from_str::<serde_json::Value>(j).ok())
            .and_then(|v| v["32"].as_str().map(|s| s.to_string()))
            .unwrap_or_default()
    };
    let acked: BTreeMap<(usize, String), bool> = t
        .acked
        .iter()
        .map(|(i, ok, rest)| ((*i, rest.split(' ').nth(2).unwrap_or("").to_string()), *ok))
        .collect();
    for (i, what) in &t.submitted {
        let w: Vec<&str> = what.split(' ').collect();
        match w[0] {
            "tree" => {
                let tag = w[1];
                let ids: Vec<&NodeRow> = snap.nodes.iter().filter(|n| name_of(n).starts_with(&format!("{}-", tag))).collect();
                let root = ids.iter().find(|n| name_of(n).ends_with("-a"));
                let edges = root.map(|r| snap.edges.iter().filter(|e| e.src == r.id).count()).unwrap_or(0);
                // a later request of the workload may have deleted the root of this tree or one of
                // its references: then the tree is not judged any more
                let root_id = t.acked.iter().find(|x| x.0 == *i && x.2.contains(tag)).and_then(|x| x.2.split(' ').nth(3).map(|s| s.to_string()));
                if let Some(rid) = &root_id {
                    if t.submitted.iter().any(|(j, wh)| j > i && (wh.starts_with("delete") || wh.starts_with("unlink")) && wh.contains(rid.as_str())) {
                        continue;
                    }
                }
                let full = ids.len() == 3 && edges == 2;
                let none = ids.is_empty();
                match acked.get(&(*i, tag.to_string())) {
                    Some(true) => {
                        if !full {
                            vio(format!("acknowledged-write-lost:{}", how), format!("request {} ({}) acknowledged, after reopening {} of 3 rows and {} of 2 references", i, tag, ids.len(), edges), o);
                        }
                    }
                    _ => {
                        if !full && !none {
                            vio(format!("partial-write-visible:{}", how), format!("request {} ({}) not acknowledged ok, after reopening {} of 3 rows and {} of 2 references", i, tag, ids.len(), edges), o);
                        }
                        if !plan.2 && full && acked.get(&(*i, tag.to_string())) == Some(&false) {
                            vio(format!("failed-request-applied:{}", how), format!("request {} ({}) reported failed but fully stored", i, tag), o);
                        }
                    }
                }
            }
            "update" => {
                let (a_id, b_id, v) = (w[1], w[2], w[3].parse::<i64>().unwrap());
                let val = |id: &str| -> Option<i64> {
                    snap.nodes.iter().find(|n| n.id == id).and_then(|n| n.json.as_ref()).and_then(|j| serde_json::from_str::<serde_json::Value>(j).ok()).and_then(|j| j["33"].as_i64())
                };
                let (va, vb) = (val(a_id), val(b_id));
                let ok = t.acked.iter().find(|x| x.0 == *i).map(|x| x.1);
                // later updates may have overwritten: only judge when no later update names these rows
                let later = t.submitted.iter().any(|(j, wh)| j > i && (wh.contains(a_id) || wh.contains(b_id)));
                if later {
                    continue;
                }
                let (a_new, b_new) = (va == Some(v), vb == Some(v));
                if ok == Some(true) && !(a_new && b_new) {
                    vio(format!("acknowledged-write-lost:{}", how), format!("update {} acknowledged, values after reopening {:?} {:?} expected {}", i, va, vb, v), o);
                }
                if a_new != b_new {
                    vio(format!("partial-write-visible:{}", how), format!("update {} applied to one of its two rows only ({:?} {:?})", i, va, vb), o);
                }
            }
            "delete" => {
                let id = w[1];
                let present = snap.nodes.iter().any(|n| n.id == id);
                let record = snap.node_dels.iter().any(|d| d.id == id);
                let ok = t.acked.iter().find(|x| x.0 == *i).map(|x| x.1);
                if ok == Some(true) && (present || !record) {
                    vio(format!("acknowledged-write-lost:{}", how), format!("deletion {} acknowledged, row present {} record {}", i, present, record), o);
                }
                if present == record {
                    vio(format!("partial-write-visible:{}", how), format!("deletion {}: row present {} and deletion record present {}", i, present, record), o);
                }
            }
            _ => {}
        }
    }
    // synchronised batches: the feeder's rows of one (entity, day) travel in one batch
    let mut groups: BTreeMap<(String, i64), Vec<bool>> = BTreeMap::new();
    let _ = &mut groups;
    // the log after the start-up recomputation describes the stored rows
    let s = snap.user_data();
    let m = log_model(&s);
    let rows: BTreeMap<Key, &LogRow> = s.log.iter().map(|l| ((l.room.clone(), l.entity.clone(), l.date), l)).collect();
    for (k, (count, hash)) in &m {
        match rows.get(k) {
            None => vio(format!("log-inconsistent-after-restart:{}", how), format!("no log row for {:?} ({} entries stored)", k, count), o),
            Some(l) => {
                if l.entry_number != *count || l.daily_hash.as_deref() != Some(hash.as_str()) || l.need_recompute == Some(1) {
                    vio(format!("log-inconsistent-after-restart:{}", how), format!("{:?}: log {:?}, stored {} entries hash {}", k, l, count, hash), o);
                }
            }
        }
    }
    for (k, l) in &rows {
        if !m.contains_key(k) && (l.entry_number != 0 || l.daily_hash.is_some()) {
            vio(format!("log-inconsistent-after-restart:{}", how), format!("{:?}: log {:?} but nothing stored", k, l), o);
        }
    }
}

impl Property for C13 {
    type Case = Case;
    const ID: &'static str = "C13";
    const CASE_TIMEOUT_S: u64 = 1800;
    const LEVEL: &'static str = "fault_enumeration";
    fn plan(tier: Tier) -> Plan {
        match tier {
            Tier::Quick => Plan { shards: 16, cases_per_shard: 4, max_shrink_iters: 30 },
            Tier::Thorough => Plan { shards: 16, cases_per_shard: 8, max_shrink_iters: 80 },
        }
    }
    fn strategy(tier: Tier) -> BoxedStrategy<Case> {
        match tier {
            Tier::Quick => strategy(12, 3),
            Tier::Thorough => strategy(20, 4),
        }
    }
    fn run(case: &Case, ctx: &RunCtx) -> Outcome {
        let mut o = Outcome::default();
        let base = ctx.case_dir("c13");
        // fault-free run: counts the hits of every point
        let d0 = base.join("free");
        std::fs::create_dir_all(&d0).unwrap();
        let free = run_child(ctx, &d0, &case.ops, None);
        if !free.done {
            o.discard = Some(format!("fault-free run did not finish (exit {:?})", free.exit));
            let _ = std::fs::remove_dir_all(&base);
            return o;
        }
        let mut seen = BTreeSet::new();
        // the fault-free run is itself checked (everything acknowledged is visible, log consistent)
        verify(&d0, &free, &("none".to_string(), 0, true), &mut o, &mut seen);
        let mut all_points: Vec<String> = POINTS.iter().map(|s| s.to_string()).collect();
        all_points.push("before_ack".to_string());
        // which (point, hit, action) to inject
        let mut plans: Vec<(String, u64, bool)> = vec![];
        if ctx.tier == Tier::Thorough && !ctx.replay {
            for p in &all_points {
                let n = free.counts.get(p).copied().unwrap_or(0);
                // every hit up to 12, then every third
                let mut k = 1;
                while k <= n {
                    plans.push((p.clone(), k, true));
                    if !ABORT_ONLY.contains(&p.as_str()) {
                        plans.push((p.clone(), k, false));
                    }
                    k += if k < 12 { 1 } else { 3 };
                }
            }
        } else {
            for f in &case.faults {
                let p = all_points[f.point as usize % all_points.len()].clone();
                let n = free.counts.get(&p).copied().unwrap_or(0);
                if n == 0 {
                    o.count("fault-point-never-hit", 1);
                    continue;
                }
                let k = 1 + (f.hit as u64 * n >> 16);
                let abort = f.abort || ABORT_ONLY.contains(&p.as_str());
                plans.push((p, k, abort));
            }
        }
        for (fi, plan) in plans.iter().enumerate() {
            let d = base.join(format!("f{}", fi));
            std::fs::create_dir_all(&d).unwrap();
            let t = run_child(ctx, &d, &case.ops, Some(plan.clone()));
            o.count("faults-injected", 1);
            o.count(&format!("fault:{}:{}", plan.0, if plan.2 { "abort" } else { "error" }), 1);
            if plan.2 && t.done {
                o.count("abort-plan-not-reached", 1);
            }
            let in_flight = t.submitted.len().saturating_sub(t.acked.len());
            if in_flight > 0 || t.acked.iter().any(|a| !a.1) {
                o.nontrivial = true;
                o.label("fault-hit-requests-in-flight");
            }
            verify(&d, &t, plan, &mut o, &mut seen);
            let _ = std::fs::remove_dir_all(&d);
        }
        let _ = std::fs::remove_dir_all(&base);
        o
    }
    fn rule() -> String {
        "proptest workloads (mutations writing 3 rows + 2 references, bursts of 2-4 such requests in flight together, two-row updates, node and reference deletions, room mutations, pulls of synchronised batches from a second instance, recompute requests, multi-day clock) run in a child process that prints a flushed line per submission and acknowledgement; a first fault-free run counts the hits of 13 instrumented points of the write path; then faults (point, k-th hit, process abort or injected statement error) are injected: 4 generated faults per workload in the quick tier, every point x every hit (every third after the 12th) in the thorough tier. After reopening the folder in a fresh instance: acknowledged requests fully visible, unacknowledged / failed ones all-or-nothing (rows, references, deletion records), restart succeeds, the log after start-up recomputation equals the independent model, and after an injected error the instance kept answering. Non-trivial = the fault struck while requests were in flight or made a request fail; distinct = distinct case digest".to_string()
    }
    fn assumptions() -> Vec<String> {
        vec![
            "only process death and statement failure are injected; loss of the OS cache (power failure under synchronous=NORMAL) cannot be simulated".into(),
            "fault points are the H5 hooks; a fault inside SQLite itself is approximated by an error returned at the entry of the statement group".into(),
        ]
    }
}
fn main() {
    if let Ok(spec) = std::env::var("C13_CHILD") {
        child_main(&spec);
    }
    main_for::<C13>()
}
