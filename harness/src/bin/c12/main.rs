//! C12: local acceptance and peer acceptance give the same verdict.
use discret::verif::database::node::{Node, NodeDeletionEntry, NodeIdentifier};
use discret::verif::security::new_uid;
use dv::engine::*;
use dv::rightsworld::*;
use dv::world::*;
use proptest::prelude::*;
use serde::{Deserialize, Serialize};
use std::collections::{BTreeSet, HashSet};

struct C12;

#[derive(Clone, Debug, Serialize, Deserialize)]
pub struct Case {
    pub idents: u8,
    pub ops: Vec<ROp>,
}

fn strategy(max_ops: usize) -> BoxedStrategy<Case> {
    (2u8..=3)
        .prop_flat_map(move |idents| {
            let first = (0..idents, proptest::collection::vec(group_strategy(idents), 1..3))
                .prop_map(|(by, groups)| ROp::RoomCreate { by, other_admins: vec![], groups });
            (Just(idents), first, proptest::collection::vec(rop_strategy(idents), 4..max_ops))
        })
        .prop_map(|(idents, first, mut ops)| {
            ops.insert(0, first);
            Case { idents, ops }
        })
        .boxed()
}

/// row version as stored: (mdate, signature, room)
async fn version(p: &Peer, id: &str) -> Option<(i64, String, Option<String>)> {
    let idb = unb64(id);
    p.sql(move |c| {
        c.query_row("SELECT mdate, _signature, room_id FROM _node WHERE id=?", [&idb], |r| {
            let s: Vec<u8> = r.get(1)?;
            let room: Option<Vec<u8>> = r.get(2)?;
            Ok((r.get(0)?, b64(&s), room.map(|x| b64(&x))))
        })
        .ok()
    })
    .await
}
async fn full_node(p: &Peer, id: &str) -> Option<Node> {
    let idb = unb64(id);
    p.sql(move |c| {
        c.query_row(
            "SELECT id, room_id, cdate, mdate, _entity, _json, _binary, verifying_key, _signature, rowid FROM _node WHERE id=?",
            [&idb],
            |row| {
                Ok(Node {
                    id: row.get(0)?,
                    room_id: row.get(1)?,
                    cdate: row.get(2)?,
                    mdate: row.get(3)?,
                    _entity: row.get(4)?,
                    _json: row.get(5)?,
                    _binary: row.get(6)?,
                    verifying_key: row.get(7)?,
                    _signature: row.get(8)?,
                    _local_id: None,
                })
            },
        )
        .ok()
    })
    .await
}
async fn deletion_records(p: &Peer, id: &str) -> usize {
    let idb = unb64(id);
    p.sql(move |c| {
        c.query_row("SELECT count(*) FROM _node_deletion_log WHERE id=?", [&idb], |r| r.get::<_, i64>(0))
            .unwrap_or(0) as usize
    })
    .await
}

/// the real ingestion calls a pull makes for one node, on `peer`: signature check, selection of
/// the versions to fetch, add_nodes. Returns true when the node was stored.
async fn ingest_node(peer: &Peer, node: Node) -> Result<bool, String> {
    let id = node.id;
    let room = match node.room_id {
        Some(r) => r,
        None => return Ok(false),
    };
    let nodes = match peer.sigs.verify_nodes(vec![node.clone()]).await {
        Ok(n) => n,
        Err(_) => return Ok(false),
    };
    let mut set = HashSet::new();
    set.insert(NodeIdentifier { id, mdate: node.mdate, signature: node._signature.clone() });
    let mut ntis = peer.db.filter_existing_node(set).await.map_err(|e| e.to_string())?;
    if ntis.is_empty() {
        return Ok(false);
    }
    for nti in ntis.iter_mut() {
        let mut n = nodes[0].clone();
        n._local_id = nti.old_local_id;
        nti.node = Some(n);
    }
    let rejected = peer.db.add_nodes(room, ntis).await.map_err(|e| e.to_string())?;
    peer.fence().await;
    Ok(!rejected.contains(&id))
}

impl Property for C12 {
    type Case = Case;
    const ID: &'static str = "C12";
    fn plan(tier: Tier) -> Plan {
        match tier {
            Tier::Quick => Plan { shards: 16, cases_per_shard: 40, max_shrink_iters: 150 },
            Tier::Thorough => Plan { shards: 16, cases_per_shard: 1200, max_shrink_iters: 300 },
        }
    }
    fn strategy(tier: Tier) -> BoxedStrategy<Case> {
        match tier {
            Tier::Quick => strategy(40),
            Tier::Thorough => strategy(80),
        }
    }
    fn run(case: &Case, ctx: &RunCtx) -> Outcome {
        begin_case(1);
        let dir = ctx.case_dir("c12");
        let rt = runtime();
        let out = rt.block_on(async {
            let mut o = Outcome::default();
            let n = case.idents as usize;
            let mut w = match RightsWorld::start(n, &dir).await {
                Ok(w) => w,
                Err(e) => {
                    o.discard = Some(format!("world-start:{}", e));
                    return o;
                }
            };
            w.single_entity = true;
            // one mirror per identity: an honest peer that only ever pulls from that identity,
            // presenting the identity's own key (so that it is offered the same rooms)
            let cfg = discret::Configuration { max_object_size_in_kb: 1, ..config() };
            let mut mirrors = vec![];
            for i in 0..n {
                match Peer::start_with(&format!("mirror{}", i), dv::syncworld::MODEL, dir.join(format!("m{}", i)), &cfg).await {
                    Ok(p) => mirrors.push(p),
                    Err(e) => {
                        o.discard = Some(format!("mirror-start:{}", e));
                        return o;
                    }
                }
            }
            let mut seen = BTreeSet::new();
            let (mut agree_accept, mut agree_refuse) = (0u64, 0u64);
            for (i, op) in case.ops.iter().enumerate() {
                let by = match op {
                    ROp::Data { by, .. } => Some(*by as usize % n),
                    _ => None,
                };
                if let Some(by) = by {
                    // the mirror holds what the caller holds (definitions and rows) before the operation
                    let opts = PullOptions { as_key: Some(w.peers[by].verifying_key.clone()), ..Default::default() };
                    Clock::advance(1);
                    let _ = pull(&mirrors[by], &w.peers[by], &opts).await;
                }
                let rows_known: Vec<RRow> = w.rows.clone();
                let step = w.apply(op).await;
                if !step.applied {
                    continue;
                }
                let Some(by) = by else { continue };
                let Some(res) = &step.result else { continue };
                o.count(&format!("op:{}", step.kind), 1);
                let caller = &w.peers[by];
                let mirror = &mirrors[by];
                // the comparison supposes that the mirror holds the caller's definitions. A pull is only offered the
                // rooms the key is a member of: once the caller's membership of a room has ended (as far as its own
                // instance knows) the mirror keeps an older definition of that room and the two are not comparable
                let mut same_definitions = true;
                for r in &w.rooms {
                    let a = caller.room(r.id).await.map(|x| dv::rights::RoomModel::from_room(&x));
                    let b = mirror.room(r.id).await.map(|x| dv::rights::RoomModel::from_room(&x));
                    if a.is_some() && a != b {
                        same_definitions = false;
                    }
                }
                if !same_definitions {
                    o.label("mirror-holds-an-older-definition:not-compared");
                    if res.is_ok() {
                        // keep the mirror's rows in step as far as it is offered them
                        let opts = PullOptions { as_key: Some(caller.verifying_key.clone()), ..Default::default() };
                        let _ = pull(mirror, caller, &opts).await;
                    }
                    continue;
                }
                let ids: Vec<String> = step.touched_rows.iter().chain(step.new_row_ids.iter()).cloned().collect();
                match res {
                    Ok(()) => {
                        if ids.is_empty() {
                            continue;
                        }
                        let opts = PullOptions { as_key: Some(caller.verifying_key.clone()), ..Default::default() };
                        Clock::advance(1);
                        let st = pull(mirror, caller, &opts).await;
                        for id in &ids {
                            let a = version(caller, id).await;
                            let b = version(mirror, id).await;
                            let (da, db) = (deletion_records(caller, id).await, deletion_records(mirror, id).await);
                            // is the row's room still offered to the caller's key? (a pull only covers those)
                            let offered = match &a {
                                Some((_, _, Some(r))) => st.rooms.iter().any(|x| b64(x) == *r),
                                _ => true,
                            };
                            if !offered {
                                o.label("accepted-row-in-room-not-offered-to-its-author");
                                continue;
                            }
                            if a == b && da != db && da >= 2 {
                                // the row has two deletion records (deleted on two instances): a batch carrying both
                                // applies one of them only - the C03 finding two-deletion-records-one-row, seen from here
                                let sig = "deletion-records-differ:after:two-deletion-records-one-row".to_string();
                                if seen.insert(sig.clone()) {
                                    o.violation(sig, format!("step {} {:?}: caller stores {} deletion records of row {}, the honest peer {}", i, op, da, id, db));
                                }
                            } else if a != b || da != db {
                                let sig = format!("accepted-locally-refused-by-peer:{}", step.kind);
                                if seen.insert(sig.clone()) {
                                    o.violation(sig, format!("step {} {:?}: caller stores {:?} ({} deletion records), honest peer with the same definition stores {:?} ({}); link errors {:?}", i, op, a, da, b, db, st.sync_errors));
                                }
                            } else {
                                agree_accept += 1;
                                o.label(format!("both-accept:{}", step.kind));
                            }
                        }
                    }
                    Err(_) => {
                        // rebuild what the caller would have produced, signed by the caller, and hand it
                        // to the mirror through the ingestion calls of a pull
                        let now = Clock::get();
                        let ROp::Data { shape, .. } = op else { continue };
                        let kind = step.kind.clone();
                        let pick_row = |r: u16| -> Option<RRow> {
                            if rows_known.is_empty() { None } else { Some(rows_known[pick(r, rows_known.len())].clone()) }
                        };
                        let room_of = |r: u8| -> Option<RoomInfo> {
                            if w.rooms.is_empty() { None } else { Some(w.rooms[r as usize % w.rooms.len()].clone()) }
                        };
                        let mut verdict: Option<bool> = None;
                        match shape {
                            Shape::Create { room, .. } | Shape::CreateBig { room, .. } => {
                                if let Some(r) = room_of(*room) {
                                    let name = match shape {
                                        Shape::CreateBig { len, .. } => "x".repeat(*len as usize),
                                        _ => dv::syncworld::text_for(3),
                                    };
                                    let mut node = Node {
                                        id: new_uid(),
                                        room_id: Some(r.id),
                                        cdate: now,
                                        mdate: now,
                                        _entity: "1.0".to_string(),
                                        _json: Some(serde_json::json!({"32": name, "33": 0}).to_string()),
                                        _binary: None,
                                        verifying_key: vec![],
                                        _signature: vec![],
                                        _local_id: None,
                                    };
                                    if node.sign(&caller.signing_key).is_ok() {
                                        verdict = ingest_node(mirror, node).await.ok();
                                    }
                                }
                            }
                            Shape::Update { row } | Shape::Move { row, .. } => {
                                if let Some(r) = pick_row(*row) {
                                    if let Some(mut node) = full_node(caller, &r.id).await {
                                        let mut json: serde_json::Value = serde_json::from_str(node._json.as_deref().unwrap_or("{}")).unwrap();
                                        json["33"] = serde_json::json!(7);
                                        node._json = Some(json.to_string());
                                        node.mdate = now;
                                        let mut ok = true;
                                        if let Shape::Move { room, .. } = shape {
                                            match room_of(*room) {
                                                Some(nr) => node.room_id = Some(nr.id),
                                                None => ok = false,
                                            }
                                        }
                                        if ok && node.sign(&caller.signing_key).is_ok() {
                                            verdict = ingest_node(mirror, node).await.ok();
                                        }
                                    }
                                }
                            }
                            Shape::DeleteNode { row } => {
                                if let Some(r) = pick_row(*row) {
                                    if let Some(node) = full_node(caller, &r.id).await {
                                        if let Some(room) = node.room_id {
                                            let entry = NodeDeletionEntry::build(room, &node, now, &caller.signing_key);
                                            let before = deletion_records(mirror, &r.id).await;
                                            if let Ok(v) = mirror.sigs.verify_node_log(vec![entry]).await {
                                                let _ = mirror.db.delete_nodes(v).await;
                                                mirror.fence().await;
                                            }
                                            let after = deletion_records(mirror, &r.id).await;
                                            verdict = Some(after > before);
                                        }
                                    }
                                }
                            }
                            _ => {}
                        }
                        match verdict {
                            Some(true) => {
                                // the size verdict of a near-limit row is not predicted: only agreement matters
                                let sig = format!("refused-locally-accepted-by-peer:{}", kind);
                                if seen.insert(sig.clone()) {
                                    o.violation(sig, format!("step {} {:?}: the caller's instance refused ({:?}; oracle: {}), an honest peer with the same definition stored the rows the caller would have produced", i, op, res, step.why));
                                }
                                // the mirror now holds something the caller does not: stop here
                                break;
                            }
                            Some(false) => {
                                agree_refuse += 1;
                                o.label(format!("both-refuse:{}", kind));
                            }
                            None => {}
                        }
                    }
                }
            }
            o.count("agree-accept", agree_accept);
            o.count("agree-refuse", agree_refuse);
            o.nontrivial = agree_accept > 0 && agree_refuse > 0;
            o
        });
        drop(rt);
        let _ = std::fs::remove_dir_all(&dir);
        out
    }
    fn rule() -> String {
        "the histories of C01 (2-3 identities, evolving room definitions, every operation shape, rows near the 1 KiB size limit of this world, rows with default fields omitted) with one honest mirror instance per identity that holds the same definitions and rows (it pulls from the identity before every operation). Accepted locally: the mirror pulls again and must store exactly the versions / deletion records the caller stores for the touched rows. Refused locally (create, near-limit create, update, move, node deletion): the harness builds the row or record the caller would have produced, signs it with the caller's key and feeds it to the mirror through the real ingestion calls of a pull (signature service, filter_existing_node, add_nodes / delete_nodes): the mirror must refuse it. Non-trivial = the history has at least one agreed acceptance and one agreed refusal; distinct = distinct case digest".to_string()
    }
    fn assumptions() -> Vec<String> {
        vec![
            "the mirror presents the identity's own key to be offered the same rooms; it never writes".into(),
            "for locally refused reference changes and nested creations the would-be rows are not rebuilt (only create, update, move, node deletion)".into(),
        ]
    }
}
fn main() {
    main_for::<C12>()
}
