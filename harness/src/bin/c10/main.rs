//! C10: a room means the same live, after restart, and on a peer that imports it.
use discret::verif::security::SigningKey;
use dv::engine::*;
use dv::rights::*;
use dv::rightsworld::{entity_sel, group_strategy, right_strategy, GroupSpec, RightSpec};
use dv::world::*;
use proptest::prelude::*;
use serde::{Deserialize, Serialize};
use std::collections::BTreeMap;

struct C10;

#[derive(Clone, Debug, Serialize, Deserialize, PartialEq)]
pub enum Op {
    Tick { ms: u32 },
    AddAdmin { key: u8, enabled: bool },
    AddGroup { spec: GroupSpec },
    AddRight { group: u8, right: RightSpec },
    AddUser { group: u8, key: u8, enabled: bool },
    AddUserAdmin { group: u8, key: u8, enabled: bool },
    /// the importing peer pulls now (it then holds an earlier version of the room)
    Import,
}

#[derive(Clone, Debug, Serialize, Deserialize)]
pub struct Case {
    pub keys: u8,
    pub first: Vec<GroupSpec>,
    pub ops: Vec<Op>,
}

const ENT: [&str; 3] = ["app.Item", "app.Note", "app.Unlisted"];

fn strategy(max_ops: usize) -> BoxedStrategy<Case> {
    (2u8..=4)
        .prop_flat_map(move |keys| {
            let t = prop_oneof![4 => 1u32..5000, 1 => 3_600_000u32..7_200_000, 2 => (DAY as u32 - 1000)..(2 * DAY as u32)];
            let op = prop_oneof![
                3 => t.prop_map(|ms| Op::Tick { ms }),
                2 => (0..keys, prop_oneof![2 => Just(true), 1 => Just(false)]).prop_map(|(key, enabled)| Op::AddAdmin { key, enabled }),
                1 => group_strategy(keys).prop_map(|spec| Op::AddGroup { spec }),
                4 => (0u8..3, right_strategy()).prop_map(|(group, right)| Op::AddRight { group, right }),
                4 => (0u8..3, 0..keys, prop_oneof![1 => Just(true), 1 => Just(false)]).prop_map(|(group, key, enabled)| Op::AddUser { group, key, enabled }),
                2 => (0u8..3, 0..keys, prop_oneof![1 => Just(true), 1 => Just(false)]).prop_map(|(group, key, enabled)| Op::AddUserAdmin { group, key, enabled }),
                1 => Just(Op::Import),
            ];
            (Just(keys), proptest::collection::vec(group_strategy(keys), 1..3), proptest::collection::vec(op, 3..max_ops))
        })
        .prop_map(|(keys, first, ops)| Case { keys, first, ops })
        .boxed()
}

/// one mutation never carries two entries for the same key in one list, nor two rights for the same
/// entity in one group (which of two contradictory entries of the same date wins is not defined)
fn dedupe(spec: &GroupSpec, nkeys: usize) -> GroupSpec {
    let mut out = GroupSpec { rights: vec![], users: vec![], user_admins: vec![] };
    for r in &spec.rights {
        if !out.rights.iter().any(|x: &RightSpec| x.entity % 3 == r.entity % 3) {
            out.rights.push(r.clone());
        }
    }
    for u in &spec.users {
        if !out.users.iter().any(|x| x.0 as usize % nkeys == u.0 as usize % nkeys) {
            out.users.push(*u);
        }
    }
    for u in &spec.user_admins {
        if !out.user_admins.iter().any(|x| x.0 as usize % nkeys == u.0 as usize % nkeys) {
            out.user_admins.push(*u);
        }
    }
    out
}

fn key_for(i: u8, writer: &Peer) -> String {
    if i == 0 {
        writer.key64()
    } else {
        b64(&signing_key_for_secret(&secret_for(&format!("paper{}", i))).export_verifying_key())
    }
}

fn add_group_to_model(m: &mut RoomModel, gid: &str, spec: &GroupSpec, keys: &[String], date: i64) {
    let g = m.groups.entry(gid.to_string()).or_default();
    for r in &spec.rights {
        g.rights.entry(entity_sel(r.entity).to_string()).or_default().push(RightEntry { date, own: r.own, all: r.all });
    }
    for (u, en) in &spec.users {
        g.users.entry(keys[*u as usize % keys.len()].clone()).or_default().push(UserEntry { date, enabled: *en });
    }
    for (u, en) in &spec.user_admins {
        g.user_admins.entry(keys[*u as usize % keys.len()].clone()).or_default().push(UserEntry { date, enabled: *en });
    }
}

fn group_text(spec: &GroupSpec, keys: &[String], p: &mut Parameters, prefix: &str) -> String {
    let mut s = String::from("{ name:\"g\" ");
    if !spec.rights.is_empty() {
        s.push_str("rights:[");
        for (i, r) in spec.rights.iter().enumerate() {
            let n = format!("{}r{}", prefix, i);
            p.add(&n, entity_sel(r.entity).to_string()).unwrap();
            s.push_str(&format!("{{entity:${} mutate_self:{} mutate_all:{}}},", n, r.own, r.all));
        }
        s.push_str("] ");
    }
    if !spec.users.is_empty() {
        s.push_str("users:[");
        for (i, (u, en)) in spec.users.iter().enumerate() {
            let n = format!("{}u{}", prefix, i);
            p.add(&n, keys[*u as usize % keys.len()].clone()).unwrap();
            s.push_str(&format!("{{verif_key:${} enabled:{}}},", n, en));
        }
        s.push_str("] ");
    }
    if !spec.user_admins.is_empty() {
        s.push_str("user_admin:[");
        for (i, (u, en)) in spec.user_admins.iter().enumerate() {
            let n = format!("{}a{}", prefix, i);
            p.add(&n, keys[*u as usize % keys.len()].clone()).unwrap();
            s.push_str(&format!("{{verif_key:${} enabled:{}}},", n, en));
        }
        s.push_str("] ");
    }
    s.push('}');
    s
}

type Matrix = Vec<(String, String, i64, bool, bool, bool, bool)>;

fn diff(a: &Matrix, b: &Matrix) -> Option<String> {
    for (x, y) in a.iter().zip(b.iter()) {
        if x != y {
            let what = if x.3 != y.3 {
                "is-admin"
            } else if x.4 != y.4 {
                "is-member"
            } else if x.5 != y.5 {
                "can-own"
            } else {
                "can-all"
            };
            return Some(format!("{} for key {} entity {} date {}: {:?} vs {:?}", what, &x.0[0..6], x.1, x.2, (x.3, x.4, x.5, x.6), (y.3, y.4, y.5, y.6)));
        }
    }
    None
}
fn diff_kind(a: &Matrix, b: &Matrix) -> &'static str {
    for (x, y) in a.iter().zip(b.iter()) {
        if x != y {
            return if x.3 != y.3 {
                "is-admin"
            } else if x.4 != y.4 {
                "is-member"
            } else if x.5 != y.5 {
                "can-own"
            } else {
                "can-all"
            };
        }
    }
    "none"
}

struct Phase1 {
    room: Option<(discret::verif::security::Uid, String)>,
    model: RoomModel,
    keys: Vec<String>,
    dates: Vec<i64>,
    live: Option<Matrix>,
    imported_live: Option<Result<Matrix, String>>,
    writer_key: Vec<u8>,
    multi_entry: bool,
    imports: u32,
    clock_end: i64,
}

impl Property for C10 {
    type Case = Case;
    const ID: &'static str = "C10";
    fn plan(tier: Tier) -> Plan {
        match tier {
            Tier::Quick => Plan { shards: 16, cases_per_shard: 50, max_shrink_iters: 200 },
            Tier::Thorough => Plan { shards: 16, cases_per_shard: 1500, max_shrink_iters: 400 },
        }
    }
    fn strategy(tier: Tier) -> BoxedStrategy<Case> {
        match tier {
            Tier::Quick => strategy(25),
            Tier::Thorough => strategy(50),
        }
    }
    fn run(case: &Case, ctx: &RunCtx) -> Outcome {
        begin_case(1);
        let case = &Case {
            keys: case.keys,
            first: case.first.iter().map(|g| dedupe(g, case.keys as usize)).collect(),
            ops: case
                .ops
                .iter()
                .map(|o| match o {
                    Op::AddGroup { spec } => Op::AddGroup { spec: dedupe(spec, case.keys as usize) },
                    x => x.clone(),
                })
                .collect(),
        };
        let dir = ctx.case_dir("c10");
        let mut o = Outcome::default();
        // ---- phase 1: the room is built by mutations in a running instance -----------------------
        let rt = runtime();
        let p1: Result<Phase1, String> = rt.block_on(async {
            let writer = Peer::start("writer", dv::syncworld::MODEL, dir.join("w")).await?;
            let importer = Peer::start("importer", dv::syncworld::MODEL, dir.join("i")).await?;
            let keys: Vec<String> = (0..case.keys).map(|i| key_for(i, &writer)).collect();
            let mut model = RoomModel::default();
            let mut groups: Vec<String> = vec![];
            // creation
            Clock::advance(1);
            let mut p = Parameters::new();
            p.add("me", keys[0].clone()).unwrap();
            let mut gs = String::new();
            for (gi, g) in case.first.iter().enumerate() {
                gs.push_str(&group_text(g, &keys, &mut p, &format!("g{}", gi)));
                gs.push(',');
            }
            let q = format!("mutate {{ sys.Room {{ admin:[{{verif_key:$me}}] authorisations:[{}] }} }}", gs);
            let now = Clock::get();
            let res = writer.mutate(&q, Some(p)).await.map_err(|e| format!("room creation refused: {}", e))?;
            let v: serde_json::Value = serde_json::from_str(&res).map_err(|e| e.to_string())?;
            let room64 = v["sys.Room"]["id"].as_str().ok_or("room id")?.to_string();
            let room = uid_of(&room64);
            model.admins.entry(keys[0].clone()).or_default().push(UserEntry { date: now, enabled: true });
            for (gi, g) in case.first.iter().enumerate() {
                let gid = v["sys.Room"]["authorisations"][gi]["id"].as_str().ok_or("group id")?.to_string();
                add_group_to_model(&mut model, &gid, g, &keys, now);
                groups.push(gid);
            }
            let mut imports = 0;
            let mut last_import: Option<Result<(), String>> = None;
            let as_writer = PullOptions { as_key: Some(writer.verifying_key.clone()), only_rooms: Some(vec![room]), ..Default::default() };
            for op in &case.ops {
                let mut p = Parameters::new();
                p.add("room", room64.clone()).unwrap();
                match op {
                    Op::Tick { ms } => {
                        Clock::advance(*ms as i64);
                        continue;
                    }
                    Op::Import => {
                        Clock::advance(1);
                        let st = pull(&importer, &writer, &as_writer).await;
                        imports += 1;
                        last_import = Some(if st.sync_errors.is_empty() { Ok(()) } else { Err(st.sync_errors.join("; ")) });
                        continue;
                    }
                    _ => {}
                }
                Clock::advance(1);
                let now = Clock::get();
                let q: String;
                let mut apply: Box<dyn FnOnce(&mut RoomModel, Option<&serde_json::Value>, &mut Vec<String>)> = Box::new(|_, _, _| {});
                match op {
                    Op::AddAdmin { key, enabled } => {
                        let k = keys[*key as usize % keys.len()].clone();
                        p.add("k", k.clone()).unwrap();
                        q = format!("mutate {{ sys.Room {{ id:$room admin:[{{verif_key:$k enabled:{}}}] }} }}", enabled);
                        let en = *enabled;
                        apply = Box::new(move |m, _, _| m.admins.entry(k).or_default().push(UserEntry { date: now, enabled: en }));
                    }
                    Op::AddGroup { spec } => {
                        let g = group_text(spec, &keys, &mut p, "ng");
                        q = format!("mutate {{ sys.Room {{ id:$room authorisations:[{}] }} }}", g);
                        let spec = spec.clone();
                        let keys2 = keys.clone();
                        apply = Box::new(move |m, v, groups| {
                            if let Some(gid) = v.and_then(|v| v["sys.Room"]["authorisations"][0]["id"].as_str()) {
                                add_group_to_model(m, gid, &spec, &keys2, now);
                                groups.push(gid.to_string());
                            }
                        });
                    }
                    Op::AddRight { group, right } => {
                        let gid = groups[*group as usize % groups.len()].clone();
                        p.add("g", gid.clone()).unwrap();
                        p.add("e", entity_sel(right.entity).to_string()).unwrap();
                        q = format!("mutate {{ sys.Room {{ id:$room authorisations:[{{ id:$g rights:[{{entity:$e mutate_self:{} mutate_all:{}}}] }}] }} }}", right.own, right.all);
                        let r = right.clone();
                        apply = Box::new(move |m, _, _| {
                            m.groups.entry(gid).or_default().rights.entry(entity_sel(r.entity).to_string()).or_default().push(RightEntry { date: now, own: r.own, all: r.all })
                        });
                    }
                    Op::AddUser { group, key, enabled } | Op::AddUserAdmin { group, key, enabled } => {
                        let is_user = matches!(op, Op::AddUser { .. });
                        let gid = groups[*group as usize % groups.len()].clone();
                        let k = keys[*key as usize % keys.len()].clone();
                        p.add("g", gid.clone()).unwrap();
                        p.add("k", k.clone()).unwrap();
                        q = format!(
                            "mutate {{ sys.Room {{ id:$room authorisations:[{{ id:$g {}:[{{verif_key:$k enabled:{}}}] }}] }} }}",
                            if is_user { "users" } else { "user_admin" },
                            enabled
                        );
                        let en = *enabled;
                        apply = Box::new(move |m, _, _| {
                            let g = m.groups.entry(gid).or_default();
                            let list = if is_user { &mut g.users } else { &mut g.user_admins };
                            list.entry(k).or_default().push(UserEntry { date: now, enabled: en });
                        });
                    }
                    _ => unreachable!(),
                }
                match writer.mutate(&q, Some(p)).await {
                    Ok(js) => {
                        let v: Option<serde_json::Value> = serde_json::from_str(&js).ok();
                        apply(&mut model, v.as_ref(), &mut groups);
                    }
                    Err(_) => {
                        // refused (e.g. the writer disabled itself as admin earlier): not part of the definition
                    }
                }
                writer.fence().await;
            }
            // evaluation points: every entry date, the millisecond before and after, and far future
            let mut dates = vec![];
            for d in model.dates() {
                dates.extend([d - 1, d, d + 1]);
            }
            dates.push(Clock::get() + 10 * DAY);
            dates.sort();
            dates.dedup();
            let ents: Vec<&str> = ENT.to_vec();
            let live = writer.room(room).await.map(|r| code_matrix(&r, &keys, &ents, &dates));
            // final import by the peer that may hold an earlier version
            Clock::advance(1);
            let st = pull(&importer, &writer, &as_writer).await;
            let imported_live = match importer.room(room).await {
                Some(r) if st.sync_errors.is_empty() => Some(Ok(code_matrix(&r, &keys, &ents, &dates))),
                _ => Some(Err(format!("import failed: {:?} (earlier import: {:?})", st.sync_errors, last_import))),
            };
            let multi_entry = model.admins.values().any(|v| v.len() > 1)
                || model.groups.values().any(|g| {
                    g.users.values().any(|v| v.len() > 1) || g.user_admins.values().any(|v| v.len() > 1) || g.rights.values().any(|v| v.len() > 1)
                });
            Ok(Phase1 {
                room: Some((room, room64)),
                model,
                keys,
                dates,
                live,
                imported_live,
                writer_key: writer.verifying_key.clone(),
                multi_entry,
                imports,
                clock_end: Clock::get(),
            })
        });
        drop(rt);
        let p1 = match p1 {
            Ok(p) => p,
            Err(e) => {
                o.discard = Some(e);
                let _ = std::fs::remove_dir_all(&dir);
                return o;
            }
        };
        let (room, _room64) = p1.room.clone().unwrap();
        let ents: Vec<&str> = ENT.to_vec();
        let expected = p1.model.matrix(&p1.keys, &ents, &p1.dates);
        o.nontrivial = p1.multi_entry;
        if p1.multi_entry {
            o.label("several-entries-for-one-key-or-entity");
        }
        if p1.imports > 0 {
            o.label("importer-held-an-earlier-version");
        }
        match &p1.live {
            None => o.violation("room-unknown-after-mutations", "the writer does not know its own room"),
            Some(m) => {
                if let Some(d) = diff(m, &expected) {
                    o.violation(format!("live-differs-from-model:{}", diff_kind(m, &expected)), d);
                }
            }
        }
        match &p1.imported_live {
            Some(Ok(m)) => {
                if let Some(d) = diff(m, &expected) {
                    o.violation(format!("imported-differs-from-model:{}", diff_kind(m, &expected)), d);
                }
            }
            Some(Err(e)) => {
                o.violation(if p1.imports > 0 { "import-of-newer-version-refused" } else { "import-of-new-room-refused" }, e.clone());
            }
            None => {}
        }
        // ---- phase 2: both instances restarted on the data they wrote themselves ---------------------
        Clock::set(p1.clock_end + 1);
        let rt = runtime();
        let r2: Vec<(String, Result<Option<Matrix>, String>)> = rt.block_on(async {
            let mut out = vec![];
            for (name, sub) in [("writer", "w"), ("importer", "i")] {
                match Peer::start(name, dv::syncworld::MODEL, dir.join(sub)).await {
                    Ok(p) => {
                        let m = p.room(room).await.map(|r| code_matrix(&r, &p1.keys, &ents, &p1.dates));
                        out.push((name.to_string(), Ok(m)));
                        if name == "writer" {
                            // a fresh peer imports from the restarted writer
                            if let Ok(f) = Peer::start("fresh", dv::syncworld::MODEL, dir.join("f")).await {
                                let opts = PullOptions { as_key: Some(p1.writer_key.clone()), only_rooms: Some(vec![room]), ..Default::default() };
                                let st = pull(&f, &p, &opts).await;
                                let m = f.room(room).await.map(|r| code_matrix(&r, &p1.keys, &ents, &p1.dates));
                                out.push(("fresh-import-after-restart".to_string(), if st.sync_errors.is_empty() { Ok(m) } else { Err(format!("{:?}", st.sync_errors)) }));
                            }
                        }
                    }
                    Err(e) => out.push((name.to_string(), Err(e))),
                }
            }
            out
        });
        drop(rt);
        for (name, r) in r2 {
            match r {
                Err(e) => {
                    let sig = if name == "fresh-import-after-restart" { "import-of-new-room-refused".to_string() } else { format!("restart-fails:{}", name) };
                    o.violation(sig, e);
                }
                Ok(None) => {
                    if name != "importer" || matches!(p1.imported_live, Some(Ok(_))) {
                        o.violation(format!("room-lost:{}", name), "the room is unknown after the restart");
                    }
                }
                Ok(Some(m)) => {
                    if let Some(d) = diff(&m, &expected) {
                        o.violation(format!("{}-after-restart-differs-from-model:{}", name, diff_kind(&m, &expected)), d);
                    }
                }
            }
        }
        // one violation per signature
        let mut seen = std::collections::BTreeSet::new();
        o.violations.retain(|v| seen.insert(v.signature.clone()));
        let _: BTreeMap<(), ()> = BTreeMap::new();
        let _ = std::fs::remove_dir_all(&dir);
        o
    }
    fn rule() -> String {
        "proptest room histories built by an admin through room mutations over several days: 1-2 initial groups, later admins, groups, rights (per entity and wildcard, incl. all-rows without own-rows), users and user admins, enabled and disabled repeatedly, with import points at which a second instance pulls the current version. The decision matrix (is-admin, is-member, can own, can all) over all keys x {Item, Note, an entity without rights} x {every entry date, the millisecond before and after, the far future} is computed by an independent model from the accepted mutations and compared with the code's decisions on five paths: live writer, importer (new room or earlier version then newer), restarted writer, restarted importer, fresh import from the restarted writer; a restart or an import that fails is a violation. Non-trivial = some key or entity has two or more entries; distinct = distinct case digest".to_string()
    }
    fn assumptions() -> Vec<String> {
        vec!["the importing peer presents the writer's key so that it is offered the room whatever the membership".into()]
    }
}
fn main() {
    main_for::<C10>()
}
