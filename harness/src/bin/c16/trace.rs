//! Trace validation: the same mutation sets fired concurrently through the real service; every
//! observed outcome must be an outcome of the phase model for some schedule.

use crate::check::*;
use crate::model::*;
use crate::phases::*;
use discret::{Parameters, ParametersAdd};
use dv::engine::{Outcome, RunCtx};
use dv::world::{begin_case, config, runtime, Clock, Peer};
use serde::{Deserialize, Serialize};
use std::collections::{BTreeMap, BTreeSet};

#[derive(Clone, Debug, Serialize, Deserialize, PartialEq)]
pub struct TraceCase {
    pub init: Init,
    pub muts: Vec<Mut>,
    /// 0: one task per mutation calling `mutate`; 1: all mutations sent on one `mutation_stream`
    pub mode: u8,
    /// how many times the set is fired (each time on a new row)
    pub rounds: u8,
    /// reader threads of the instance
    pub readers: u8,
}

const MUT_DATE: i64 = 1000;

fn id_of(res: &str, key: &str) -> Result<String, String> {
    let v: serde_json::Value = serde_json::from_str(res).map_err(|e| e.to_string())?;
    v[key]["id"].as_str().map(|s| s.to_string()).ok_or_else(|| format!("no id in {}", res))
}

/// the outcomes the phase model produces for the set: every read/write interleaving, run as the
/// real phases in memory (all mutations carry the same date, as under the frozen clock of a round)
fn model_outcomes(
    env: &mut Env,
    init: &Init,
    muts: &[Mut],
) -> Result<BTreeMap<(Out, Vec<bool>), Vec<Event>>, String> {
    let dates = vec![MUT_DATE; muts.len()];
    let mut set = BTreeMap::new();
    for s in rw_schedules(muts.len()) {
        let rr = run_schedule(env, init, muts, &dates, &s)?;
        set.entry((rr.out, rr.acks)).or_insert(s);
    }
    Ok(set)
}

pub fn run_trace(tc: &TraceCase, ctx: &RunCtx, o: &mut Outcome) {
    let init = tc.init.normalised();
    let mut muts: Vec<Mut> = tc.muts.iter().map(|m| m.normalised()).collect();
    muts.truncate(3);
    if muts.len() < 2 {
        o.discard = Some("trace-needs-two-mutations".into());
        return;
    }
    if tc.mode == 1 {
        // results of a stream carry no caller identity: only sets in which every mutation is accepted
        for m in muts.iter_mut() {
            if m.room == Some(UNKNOWN_ROOM) {
                m.room = None;
            }
        }
    }
    let rounds = tc.rounds.clamp(1, 64) as usize;
    let readers = tc.readers.clamp(1, 4) as usize;
    o.label(format!("trace:{}", if tc.mode == 1 { "mutation_stream" } else { "parallel-callers" }));
    o.label(format!("trace:readers={}", readers));
    o.label(format!("trace:n={}", muts.len()));

    let mut env = Env::new();
    let model = match model_outcomes(&mut env, &init, &muts) {
        Ok(m) => m,
        Err(e) => {
            o.violation("harness-error", format!("phase model of the trace: {}", e));
            return;
        }
    };
    // the serial outcomes, by the real phases (same dates)
    let dates = vec![MUT_DATE; muts.len()];
    let mut serial_cache = SerialCache::new();
    let mut seen = BTreeSet::new();

    begin_case(1);
    let rt = runtime();
    let dir = ctx.case_dir("trace");
    let entities = env.entities.clone();
    let res: Result<(), String> = rt.block_on(async {
        let mut cfg = config();
        cfg.parallelism = readers;
        let peer = Peer::start_with("c16", MODEL, dir, &cfg).await?;
        // two rooms granting every right to the local key
        let mut rooms64 = vec![];
        let mut names = Names { entities, strict: false, ..Default::default() };
        for i in 0..2u8 {
            Clock::advance(1);
            let mut p = Parameters::new();
            p.add("k", peer.key64()).unwrap();
            let res = peer
                .mutate(
                    "mutate { sys.Room{ admin:[{verif_key:$k}] authorisations:[{ name:\"all\" rights:[{entity:\"*\" mutate_self:true mutate_all:true}] users:[{verif_key:$k}] }] } }",
                    Some(p),
                )
                .await?;
            let id = id_of(&res, "sys.Room")?;
            names.rooms.insert(dv::world::unb64(&id), room_name(i));
            rooms64.push(id);
        }
        // a room the instance does not know
        rooms64.push(discret::base64_encode(&discret::verif::security::derive_uid("c16 unknown room", b"c16")));
        Clock::advance(1);
        let t_setup = Clock::get();
        let mut pets = vec![];
        for i in 0..NPETS {
            let mut p = Parameters::new();
            p.add("room", rooms64[0].clone()).unwrap();
            p.add("n", pet_name(i)).unwrap();
            let res = peer.mutate("mutate { app.Pet { room_id:$room name:$n } }", Some(p)).await?;
            let id = id_of(&res, "app.Pet")?;
            names.ids.insert(dv::world::unb64(&id), (pet_name(i), t_setup));
            pets.push(id);
        }
        let mut friends = vec![];
        for i in 0..NFRIENDS {
            let mut p = Parameters::new();
            p.add("room", rooms64[0].clone()).unwrap();
            p.add("n", friend_name(i)).unwrap();
            let res = peer.mutate("mutate { app.Item { room_id:$room name:$n } }", Some(p)).await?;
            let id = id_of(&res, "app.Item")?;
            names.ids.insert(dv::world::unb64(&id), (friend_name(i), t_setup));
            friends.push(id);
        }

        for _round in 0..rounds {
            Clock::advance(10);
            let t_create = Clock::get();
            let (q, p) = build_creation(&init, &rooms64, &pets, &friends);
            let res = peer.mutate(&q, Some(p)).await?;
            let rid = id_of(&res, "app.Item")?;
            Clock::advance(MUT_DATE);
            peer.fence().await;

            let mut acks: Vec<Option<bool>> = vec![None; muts.len()];
            if tc.mode == 1 {
                let (tx, mut rx) = peer.db.mutation_stream();
                let batch: Vec<(String, Parameters)> = muts
                    .iter()
                    .map(|m| build_mutation(m, &rid, &rooms64, &pets, &friends))
                    .collect();
                let n = batch.len();
                let sender = tokio::spawn(async move {
                    for (q, p) in batch {
                        let _ = tx.send((q, Some(p))).await;
                    }
                    // the stream stays open until every result has been received
                    tx
                });
                let mut ok = 0;
                let mut err = vec![];
                for _ in 0..n {
                    match rx.recv().await {
                        Some(Ok(_)) => ok += 1,
                        Some(Err(e)) => err.push(e.to_string()),
                        None => break,
                    }
                }
                let _tx = sender.await;
                if ok == n {
                    acks = vec![Some(true); n];
                } else {
                    return Err(format!("mutation_stream answered {} of {}: {:?}", ok, n, err));
                }
            } else {
                let mut handles = vec![];
                for m in &muts {
                    let (q, p) = build_mutation(m, &rid, &rooms64, &pets, &friends);
                    let db = peer.db.clone();
                    handles.push(tokio::spawn(async move { db.mutate(&q, Some(p)).await.map(|_| ()).map_err(|e| e.to_string()) }));
                }
                for (i, h) in handles.into_iter().enumerate() {
                    let r = h.await.map_err(|e| e.to_string())?;
                    acks[i] = Some(r.is_ok());
                }
            }
            peer.fence().await;
            let acks: Vec<bool> = acks.into_iter().map(|a| a.unwrap_or(false)).collect();

            let mut round_names = names.clone();
            round_names.ids.insert(dv::world::unb64(&rid), ("R".to_string(), t_create));
            let rr = peer
                .sql(move |c| read_out(c, &round_names))
                .await
                .map_err(|e| format!("reading the instance: {}", e))?;

            o.count("traces_validated_against_impl", 1);
            if !rr.sig_errors.is_empty() {
                report_once(o, &mut seen, "final-row-signature-invalid", format!("real service: {:?}", rr.sig_errors));
            }
            let key = (rr.out.clone(), acks.clone());
            match model.get(&key) {
                Some(schedule) => {
                    o.count("traces_inside_phase_model", 1);
                    // the serial oracle on the observed outcome
                    let acked: Vec<u8> = (0..muts.len() as u8).filter(|i| acks[*i as usize]).collect();
                    let mut serial: Vec<(Vec<u8>, Out)> = vec![];
                    for order in permutations(&acked) {
                        let mut quiet = Outcome::default();
                        if let Some(out) =
                            serial_cache.get(&mut env, &init, &muts, &dates, &order, &mut quiet, &mut BTreeSet::new())?
                        {
                            serial.push((order, out));
                        }
                    }
                    let acked_dates = vec![MUT_DATE; acked.len()];
                    if serial.iter().any(|(_, out)| serial_diff(&rr.out, out, &acked_dates).is_empty()) {
                        o.count("traces_equal_to_a_serial_order", 1);
                        o.label("trace-outcome:serial");
                    } else {
                        o.count("traces_deviating_on_the_real_service", 1);
                        let mr = model_run(&init, &muts, &dates, schedule);
                        let d = classify(&init, &muts, schedule, &mr, &rr.out, &serial, &acked_dates, mr.out == rr.out);
                        o.label(format!("trace-outcome:{}", d.signature));
                        o.label(format!("trace-deviation:readers={}", readers));
                        o.count(&format!("trace-sig:{}", d.signature), 1);
                        report_once(
                            o,
                            &mut seen,
                            &d.signature,
                            format!(
                                "observed on the real service ({}, {} reader threads): stored {} equals no serial order of {:?}; closest {:?} (differs in {:?}); same outcome as phase schedule [{}]; init {:?} mutations {:?}",
                                if tc.mode == 1 { "mutation_stream" } else { "parallel callers" },
                                readers,
                                brief(&rr.out),
                                acked,
                                d.nearest_order,
                                d.tokens,
                                schedule_text(schedule),
                                init,
                                muts
                            ),
                        );
                    }
                }
                None => {
                    o.count("traces_outside_phase_model", 1);
                    report_once(
                        o,
                        &mut seen,
                        "trace-outcome-outside-phase-model",
                        format!(
                            "the real service stored {} acks {:?}, which no schedule of the phase model produces ({} model outcomes); init {:?} mutations {:?}",
                            brief(&rr.out),
                            acks,
                            model.len(),
                            init,
                            muts
                        ),
                    );
                }
            }
        }
        Ok(())
    });
    if let Err(e) = res {
        o.discard = Some("trace-world-error".into());
        o.violation("harness-error", format!("trace world: {}", e));
    }
    o.nontrivial = true;
}

fn report_once(o: &mut Outcome, seen: &mut BTreeSet<String>, sig: &str, detail: String) {
    if seen.insert(sig.to_string()) {
        o.violation(sig, detail);
    }
}
