//! C16: concurrent mutations of one row do not lose acknowledged changes.
//!
//! The three phases of the mutation pipeline (read = `MutationQuery::execute` on a connection,
//! validate + sign = `RoomAuthorisations::validate_mutation`, write = `Writeable::write` inside a
//! transaction) are run as the real functions, in every order the pipeline permits, for 2-3
//! mutations of one row. The stored result must equal the result of applying the acknowledged
//! mutations one after another in some order.

mod check;
mod model;
mod phases;
mod trace;

use check::*;
use dv::engine::*;
use model::*;
use phases::*;
use proptest::prelude::*;
use proptest::strategy::BoxedStrategy;
use serde::{Deserialize, Serialize};
use serde_json::{json, Value};
use std::collections::BTreeMap;
use trace::*;

#[derive(Clone, Debug, Serialize, Deserialize)]
pub enum Case {
    /// one mutation set under one schedule
    Phase {
        init: Init,
        muts: Vec<Mut>,
        /// clock offset of each mutation's read, in units of 10 ms (equal values allowed)
        dates: Vec<u8>,
        schedule: Vec<Event>,
    },
    /// one mutation set under EVERY permitted schedule
    AllSchedules { init: Init, muts: Vec<Mut>, dates: Vec<u8> },
    /// one mutation set fired concurrently through the real service
    Trace(TraceCase),
}

fn abs_dates(dates: &[u8], n: usize) -> Vec<i64> {
    (0..n).map(|i| 1000 + 10 * (*dates.get(i).unwrap_or(&0) as i64)).collect()
}

struct C16;

fn refop_strategy() -> BoxedStrategy<Option<RefOp>> {
    prop_oneof![
        4 => Just(None),
        2 => (0..NFRIENDS).prop_map(|t| Some(RefOp::AddFriend(t))),
        1 => Just(Some(RefOp::ClearFriends)),
        2 => (0..NPETS).prop_map(|t| Some(RefOp::SetPet(t))),
        1 => Just(Some(RefOp::ClearPet)),
    ]
    .boxed()
}

fn mut_strategy() -> BoxedStrategy<Mut> {
    (
        proptest::collection::vec((0u8..3, 1u8..9), 0..=2),
        refop_strategy(),
        prop_oneof![12 => Just(None), 3 => (0u8..2).prop_map(Some), 1 => Just(Some(UNKNOWN_ROOM))],
    )
        .prop_map(|(sets, refop, room)| Mut { sets, refop, room }.normalised())
        .boxed()
}

fn init_strategy() -> BoxedStrategy<Init> {
    (0u8..4, 0u8..4, 0u8..4, proptest::option::of(0..NPETS), 0u8..8, 0u8..2)
        .prop_map(|(a, b, c, pet, fbits, room)| {
            let friends = (0..NFRIENDS).filter(|i| fbits & (1 << i) != 0).collect();
            Init { a, b, c, pet, friends, room }
        })
        .boxed()
}

/// themes that keep the known lost-update shapes out of most cases, so that any other deviation
/// is not hidden behind them: 0 = free mix; 1 = scalar assignments of ONE field only;
/// 2 = reference changes only (a second replacement of the single reference targets the same row)
fn apply_theme(theme: u8, muts: Vec<Mut>) -> Vec<Mut> {
    match theme {
        1 => {
            let f = muts[0].sets.first().map(|s| s.0).unwrap_or(0);
            muts.into_iter()
                .enumerate()
                .map(|(i, m)| Mut::set(f, m.sets.first().map(|s| s.1).unwrap_or(1) + 10 * (i as u8 + 1)))
                .collect()
        }
        2 => {
            let mut pet: Option<u8> = None;
            muts.into_iter()
                .enumerate()
                .map(|(i, m)| {
                    let r = match m.refop {
                        Some(RefOp::SetPet(t)) => {
                            let t = *pet.get_or_insert(t);
                            RefOp::SetPet(t)
                        }
                        Some(r) => r,
                        None => RefOp::AddFriend(i as u8 % NFRIENDS),
                    };
                    Mut::reference(r)
                })
                .collect()
        }
        _ => muts,
    }
}

fn phase_case_strategy(max_muts: usize) -> BoxedStrategy<Case> {
    (
        init_strategy(),
        proptest::collection::vec(mut_strategy(), 2..=max_muts),
        proptest::collection::vec(0u8..4, 3),
        any::<u16>(),
        prop_oneof![3 => Just(0u8), 3 => Just(1u8), 4 => Just(2u8)],
    )
        .prop_map(|(init, muts, dates, six, theme)| {
            let muts = apply_theme(theme, muts);
            let all = all_schedules(muts.len());
            let schedule = all[pick(six, all.len())].clone();
            Case::Phase { init, muts, dates, schedule }
        })
        .boxed()
}

fn trace_sets() -> Vec<(Init, Vec<Mut>)> {
    let c = catalogue();
    let k = |name: &str| c.iter().find(|e| e.0 == name).unwrap().1.clone();
    let std = Init::standard();
    let bare = Init { a: 1, b: 2, c: 3, pet: None, friends: vec![], room: 1 };
    vec![
        (std.clone(), vec![k("set-a"), k("set-b")]),
        (std.clone(), vec![k("set-a"), k("set-a-again")]),
        (std.clone(), vec![k("set-a"), k("add-friend-new")]),
        (std.clone(), vec![k("set-pet-1"), k("set-pet-2")]),
        (std.clone(), vec![k("move+set-c"), k("set-b")]),
        (std.clone(), vec![k("move+add-friend"), k("set-a")]),
        (std.clone(), vec![k("clear-friends"), k("add-friend-new")]),
        (std.clone(), vec![k("rejected-move+set-b"), k("set-a")]),
        (std.clone(), vec![k("set-a"), k("set-b"), k("add-friend-new")]),
        (std.clone(), vec![k("set-a+add-friend"), k("set-b"), k("clear-pet")]),
        (std.clone(), vec![k("set-a+add-friend"), k("set-a+clear-friends")]),
        (std.clone(), vec![k("set-a+add-friend-existing"), k("set-a+clear-friends")]),
        (bare.clone(), vec![k("set-pet-1"), k("set-pet-2"), k("set-a")]),
        (bare, vec![k("add-friend-new"), k("add-friend-existing"), k("move+set-c")]),
    ]
}

impl Property for C16 {
    type Case = Case;
    const ID: &'static str = "C16";

    fn plan(tier: Tier) -> Plan {
        match tier {
            Tier::Quick => Plan { shards: 16, cases_per_shard: 1500, max_shrink_iters: 300 },
            Tier::Thorough => Plan { shards: 16, cases_per_shard: 30000, max_shrink_iters: 500 },
        }
    }

    fn strategy(_tier: Tier) -> BoxedStrategy<Case> {
        phase_case_strategy(3)
    }

    fn fixed_cases(tier: Tier) -> Vec<Case> {
        let mut v = vec![];
        let cat = catalogue();
        let std = Init::standard();
        // every schedule of every pair of catalogue mutations (both tiers)
        for ms in multisets(cat.len(), 2) {
            v.push(Case::AllSchedules {
                init: std.clone(),
                muts: ms.iter().map(|i| cat[*i].1.clone()).collect(),
                dates: vec![0, 1, 2],
            });
        }
        if tier == Tier::Thorough {
            for ms in multisets(cat.len(), 3) {
                v.push(Case::AllSchedules {
                    init: std.clone(),
                    muts: ms.iter().map(|i| cat[*i].1.clone()).collect(),
                    dates: vec![0, 1, 2],
                });
            }
            // the pairs again on two other initial rows and with equal / decreasing dates
            let bare = Init { a: 1, b: 2, c: 3, pet: None, friends: vec![], room: 1 };
            let full = Init { a: 1, b: 2, c: 3, pet: Some(1), friends: vec![0, 1, 2], room: 0 };
            for (init, dates) in [(bare, vec![0u8, 0, 0]), (full, vec![2u8, 1, 0])] {
                for ms in multisets(cat.len(), 2) {
                    v.push(Case::AllSchedules {
                        init: init.clone(),
                        muts: ms.iter().map(|i| cat[*i].1.clone()).collect(),
                        dates: dates.clone(),
                    });
                }
            }
        }
        let (rounds, reps) = match tier {
            Tier::Quick => (12u8, 1),
            Tier::Thorough => (32u8, 3),
        };
        for rep in 0..reps {
            for (i, (init, muts)) in trace_sets().into_iter().enumerate() {
                for mode in 0..2u8 {
                    let readers = [4u8, 2, 1][(i + rep + mode as usize) % 3];
                    v.push(Case::Trace(TraceCase { init: init.clone(), muts: muts.clone(), mode, rounds, readers }));
                }
            }
        }
        v
    }

    fn run(case: &Case, ctx: &RunCtx) -> Outcome {
        let mut o = Outcome::default();
        match case {
            Case::Phase { init, muts, dates, schedule } => {
                let init = init.normalised();
                let muts: Vec<Mut> = muts.iter().map(|m| m.normalised()).collect();
                if muts.len() < 2 || muts.len() > 3 || !schedule_is_valid(schedule, muts.len()) {
                    o.discard = Some("schedule-not-permitted-by-the-pipeline".into());
                    return o;
                }
                let dates = abs_dates(dates, muts.len());
                o.label(format!("phase:n={}", muts.len()));
                let mut kinds: Vec<String> = muts.iter().map(|m| m.kind()).collect();
                kinds.sort();
                for k in &kinds {
                    o.label(format!("kind:{}", k));
                }
                let mut env = Env::new();
                match check_set(&mut env, &init, &muts, &dates, std::slice::from_ref(schedule), &mut o, false) {
                    Ok(st) => o.nontrivial = st.nontrivial > 0,
                    Err(e) => o.violation("harness-error", e),
                }
            }
            Case::AllSchedules { init, muts, dates } => {
                let init = init.normalised();
                let muts: Vec<Mut> = muts.iter().map(|m| m.normalised()).collect();
                if muts.len() < 2 || muts.len() > 3 {
                    o.discard = Some("set-size".into());
                    return o;
                }
                let dates = abs_dates(dates, muts.len());
                o.label(format!("all-schedules:n={}", muts.len()));
                let all = all_schedules(muts.len());
                let mut env = Env::new();
                match check_set(&mut env, &init, &muts, &dates, &all, &mut o, true) {
                    Ok(st) => {
                        o.nontrivial = st.nontrivial > 0;
                        o.count(&format!("exhaustive_sets_n{}", muts.len()), 1);
                        o.count(&format!("exhaustive_schedules_n{}", muts.len()), st.schedules);
                        o.label(if st.deviations > 0 { "set:some-schedule-deviates" } else { "set:every-schedule-serial" });
                    }
                    Err(e) => o.violation("harness-error", e),
                }
            }
            Case::Trace(tc) => run_trace(tc, ctx, &mut o),
        }
        o
    }

    fn rule() -> String {
        "a case is an initial row (3 scalars, a single reference, an array reference, a room), 2-3 mutations of that row (scalar assignments of the same or different fields, array reference add / clear, single reference replace / clear, room move, a move rejected by the authorisation actor, and combinations) and one sequence of their phase events R_i (MutationQuery::execute), V_i (RoomAuthorisations::validate_mutation), W_i (Writeable::write in a transaction) with R_i < V_i < W_i and write order == validate order, run as the real functions on one in-memory connection; generated cases pick the schedule by index into the enumeration of all permitted sequences, fixed cases enumerate all of them for every multiset of 2 (thorough: and 3) mutations of a 15-kind catalogue; trace cases fire the set through a real instance (parallel callers / mutation_stream, 1-4 reader threads). Non-trivial = at least two read phases precede the first write phase (trace cases: mutations in flight together on the real service); distinct = distinct case digest".to_string()
    }

    fn assumptions() -> Vec<String> {
        vec![
            "each write phase is its own transaction: a batch holding several writes is equivalent to the schedule in which no read falls between them, since reader connections only see committed batches".into(),
            "interleavings inside one phase (statement level) are not explored: a phase runs on one thread and the write phase runs inside the single writer's transaction".into(),
            "every schedule judged is reachable in the default configuration (4 reader threads: reads complete in any order; authorisation actor and batch writer are FIFO); with parallelism 1 only the schedules whose validate order equals the read order are reachable (counted separately)".into(),
            "mutations carry the date of their read phase; the serial reference applies the same (mutation, date) pairs, so a stored mdate must be the date of the mutation that comes last in the matching serial order".into(),
            "trace cases depend on the scheduling of the real threads and are not replayable bit for bit; they only widen or confirm the set of outcomes of the phase model".into(),
        ]
    }

    fn extra_coverage(tier: Tier, m: &Merged) -> BTreeMap<String, Value> {
        let c = |k: &str| m.counters.get(k).cloned().unwrap_or(0);
        let mut out = BTreeMap::new();
        let n2 = all_schedules(2).len();
        let n3 = all_schedules(3).len();
        let cat = catalogue().len();
        out.insert("exhaustive".into(), json!(true));
        out.insert(
            "exhaustive_scope".into(),
            json!(format!(
                "every permitted phase schedule ({} for 2 mutations{}) of every multiset of 2{} mutations of the {}-kind catalogue on the standard initial row{}",
                n2,
                if tier == Tier::Thorough { format!(", {} for 3", n3) } else { String::new() },
                if tier == Tier::Thorough { " and 3" } else { "" },
                cat,
                if tier == Tier::Thorough { "; the pairs also on two other initial rows with equal and decreasing dates" } else { "" }
            )),
        );
        out.insert("permitted_schedules_2_mutations".into(), json!(n2));
        out.insert("permitted_schedules_3_mutations".into(), json!(n3));
        out.insert("exhaustive_sets_2".into(), json!(c("exhaustive_sets_n2")));
        out.insert("exhaustive_sets_3".into(), json!(c("exhaustive_sets_n3")));
        out.insert("exhaustive_schedules_2".into(), json!(c("exhaustive_schedules_n2")));
        out.insert("exhaustive_schedules_3".into(), json!(c("exhaustive_schedules_n3")));
        out.insert(
            "expected_exhaustive_sets_2".into(),
            json!(multisets(cat, 2).len() * if tier == Tier::Thorough { 3 } else { 1 }),
        );
        out.insert(
            "expected_exhaustive_sets_3".into(),
            json!(if tier == Tier::Thorough { multisets(cat, 3).len() } else { 0 }),
        );
        out.insert("schedules_run".into(), json!(c("schedules_run")));
        out.insert("schedules_nontrivial".into(), json!(c("schedules_nontrivial")));
        out.insert("schedules_deviating_known_shapes".into(), json!(c("schedules_deviating")));
        out.insert("traces_validated_against_impl".into(), json!(c("traces_validated_against_impl")));
        out.insert("traces_outside_phase_model".into(), json!(c("traces_outside_phase_model")));
        out.insert(
            "traces_deviating_on_the_real_service".into(),
            json!(c("traces_deviating_on_the_real_service")),
        );
        out
    }
}

fn main() {
    main_for::<C16>()
}
