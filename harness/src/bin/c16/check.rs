//! Oracles of C16 over one mutation set and one or many schedules.

use crate::model::*;
use crate::phases::*;
use dv::engine::Outcome;
use std::collections::{BTreeMap, BTreeSet};

/// outcome of the mutations `order` applied one after another by the real phases;
/// None when one of them is not acknowledged in that order (the order is then not an
/// application of the acknowledged mutations)
pub struct SerialCache {
    pub real: BTreeMap<Vec<u8>, Option<Out>>,
    pub runs: u64,
}

impl SerialCache {
    pub fn new() -> Self {
        SerialCache { real: BTreeMap::new(), runs: 0 }
    }

    pub fn get(
        &mut self,
        env: &mut Env,
        init: &Init,
        muts: &[Mut],
        dates: &[i64],
        order: &[u8],
        o: &mut Outcome,
        seen_sigs: &mut BTreeSet<String>,
    ) -> Result<Option<Out>, String> {
        if let Some(v) = self.real.get(order) {
            return Ok(v.clone());
        }
        let s = serial_schedule(order);
        let rr = run_schedule(env, init, muts, dates, &s)?;
        self.runs += 1;
        // the serial meaning of the mutations, by the pure model
        let mr = model_run(init, muts, dates, &s);
        if rr.out != mr.out || rr.acks != mr.acks {
            let mut tokens: Vec<String> = diff(&rr.out, &mr.out).into_iter().collect();
            if rr.acks != mr.acks {
                tokens.push("acknowledgement".into());
            }
            let sig = format!("serial-semantics-differs-from-model:{}", tokens.join("+"));
            if seen_sigs.insert(sig.clone()) {
                o.violation(
                    sig,
                    format!(
                        "mutations {:?} applied one after another in order {:?} on {:?}: stored {} acks {:?} notes {:?}; a mutation means {} acks {:?}",
                        muts,
                        order,
                        init,
                        brief(&rr.out),
                        rr.acks,
                        rr.notes,
                        brief(&mr.out),
                        mr.acks
                    ),
                );
            }
        }
        if !rr.sig_errors.is_empty() && seen_sigs.insert("final-row-signature-invalid".into()) {
            o.violation(
                "final-row-signature-invalid",
                format!("serial order {:?} of {:?}: {:?}", order, muts, rr.sig_errors),
            );
        }
        let all_acked = order.iter().all(|i| rr.acks[*i as usize]);
        let v = if all_acked { Some(rr.out) } else { None };
        self.real.insert(order.to_vec(), v.clone());
        Ok(v)
    }
}

/// compact text of the row R and its references
pub fn brief(out: &Out) -> String {
    let r = match out.rows.get("R") {
        Some(r) => format!(
            "R{{room:{} mdate:{} {}{}}}",
            r.room.clone().unwrap_or_else(|| "-".into()),
            r.mdate,
            r.fields.iter().map(|(k, v)| format!("{}={}", k, v)).collect::<Vec<_>>().join(" "),
            if r.copies != 1 { format!(" copies:{}", r.copies) } else { String::new() }
        ),
        None => "R{absent}".to_string(),
    };
    let e: Vec<String> = out.edges.iter().map(|e| format!("{}.{}->{}", e.0, e.1, e.2)).collect();
    format!("{} refs[{}]", r, e.join(","))
}

/// the date of a mutation is taken by its read phase, so the property fixes the stored
/// modification date only up to "the date of one of the acknowledged mutations" (or the initial
/// date when the serial order leaves the row untouched)
pub fn mdate_ok(actual: &Out, serial: &Out, acked_dates: &[i64]) -> bool {
    match (actual.rows.get("R"), serial.rows.get("R")) {
        (Some(a), Some(s)) => a.mdate == s.mdate || (s.mdate != 0 && acked_dates.contains(&a.mdate)),
        _ => true,
    }
}

/// difference between the stored outcome and a serial outcome, modification date relaxed
pub fn serial_diff(actual: &Out, serial: &Out, acked_dates: &[i64]) -> BTreeSet<String> {
    let mut t = diff(actual, serial);
    if mdate_ok(actual, serial, acked_dates) {
        t.remove("mdate");
    }
    t
}

pub struct Deviation {
    pub signature: String,
    pub nearest_order: Vec<u8>,
    pub tokens: BTreeSet<String>,
}

/// number of places (fields, room, references, date, other rows) in which two outcomes differ
fn distance(actual: &Out, serial: &Out, acked_dates: &[i64]) -> usize {
    let mut d = actual.edges.symmetric_difference(&serial.edges).count();
    match (actual.rows.get("R"), serial.rows.get("R")) {
        (Some(a), Some(s)) => {
            let names: BTreeSet<&String> = a.fields.keys().chain(s.fields.keys()).collect();
            d += names.into_iter().filter(|n| a.fields.get(*n) != s.fields.get(*n)).count();
            if a.room != s.room {
                d += 1;
            }
            if a.copies != s.copies || a.entity != s.entity {
                d += 1;
            }
        }
        _ => d += 1,
    }
    if !mdate_ok(actual, serial, acked_dates) {
        d += 1;
    }
    for (n, r) in &actual.rows {
        if n != "R" && serial.rows.get(n) != Some(r) {
            d += 1;
        }
    }
    d
}

/// the shape of a deviation that the stale-snapshot prediction reproduces, relative to one of the
/// closest serial outcomes; None when no shape predicate holds for that serial outcome
fn shape(
    init: &Init,
    muts: &[Mut],
    schedule: &[Event],
    mr: &ModelRun,
    actual: &Out,
    nearest: &Out,
    tokens: &BTreeSet<String>,
) -> Option<String> {
    let init_out = model_init(init);
    let pet_targets = actual.edges.iter().filter(|e| e.0 == "R" && e.1 == "pet").count();
    let r_actual = actual.rows.get("R");
    let r_near = nearest.rows.get("R");
    let edge_of = |m: &Mut| -> Option<(String, String, String)> {
        match &m.refop {
            Some(RefOp::AddFriend(t)) => Some(("R".to_string(), "friends".to_string(), friend_name(*t))),
            Some(RefOp::SetPet(t)) => Some(("R".to_string(), "pet".to_string(), pet_name(*t))),
            _ => None,
        }
    };
    // an inserted reference of the mutation that is visible now and was not there initially
    let reference_kept = |m: &Mut| -> bool {
        match edge_of(m) {
            Some(e) => actual.edges.contains(&e) && !init_out.edges.contains(&e),
            None => false,
        }
    };
    if pet_targets > 1 {
        return Some("mixed-state:single-reference-two-targets".to_string());
    }
    if tokens.contains("room") {
        // a room move is not visible although the closest serial order shows it (or the reverse)
        let movers_kept = muts.iter().enumerate().any(|(i, m)| {
            mr.acks[i]
                && m.room.is_some()
                && r_actual.map(|r| r.room != m.room.map(room_name)).unwrap_or(false)
                && reference_kept(m)
        });
        return Some(if movers_kept {
            "mixed-state:room-move".to_string()
        } else {
            "lost-update:room-move-reverted".to_string()
        });
    }
    if tokens.contains("field") {
        // victims: acknowledged mutations whose assignment is in the closest serial outcome but
        // not in the stored row
        let mut partial = false;
        if let (Some(ra), Some(rn)) = (r_actual, r_near) {
            for (i, m) in muts.iter().enumerate() {
                if !mr.acks[i] {
                    continue;
                }
                let lost = m.sets.iter().any(|(f, v)| {
                    let name = FIELDS[*f as usize];
                    let val = field_value(*f, *v);
                    rn.fields.get(name) == Some(&val) && ra.fields.get(name) != Some(&val)
                });
                if lost && reference_kept(m) {
                    partial = true;
                }
            }
        }
        if partial {
            return Some("mixed-state:field-lost-reference-kept".to_string());
        }
        // the first stale writer: an acknowledged mutation storing a row image although
        // another acknowledged row image was stored between its read and its write
        let writes =
            |i: usize| -> bool { mr.acks[i] && mr.effects[i].as_ref().map(|e| e.node.is_some()).unwrap_or(false) };
        let pos = |p: Phase, i: usize| schedule.iter().position(|e| e.0 == p && e.1 as usize == i);
        for e in schedule {
            if e.0 != Phase::W {
                continue;
            }
            let j = e.1 as usize;
            if !writes(j) {
                continue;
            }
            let (rj, wj) = (pos(Phase::R, j).unwrap(), pos(Phase::W, j).unwrap());
            let stale = (0..muts.len())
                .any(|i| i != j && writes(i) && pos(Phase::W, i).map(|wi| rj < wi && wi < wj).unwrap_or(false));
            if stale {
                return Some(format!("lost-update:{}", muts[j].writer_kind()));
            }
        }
        return None;
    }
    if !tokens.is_empty() && tokens.iter().all(|t| t == "pet-reference" || t == "friend-reference") {
        // the row image is the one of the closest serial order, the references are not
        let skipped = muts.iter().enumerate().any(|(i, m)| {
            let e = match edge_of(m) {
                Some(e) => e,
                None => return false,
            };
            // the target was present when the mutation was read, so it decided to insert nothing
            let decided_nothing = mr.effects[i].as_ref().map(|x| x.ins.is_empty()).unwrap_or(false);
            mr.acks[i] && decided_nothing && !actual.edges.contains(&e) && nearest.edges.contains(&e)
        });
        if skipped {
            return Some("lost-update:reference-assignment-skipped".to_string());
        }
        // a reference that a clear / replace written later should have removed
        let survivor = actual.edges.iter().any(|e| e.0 == "R" && !nearest.edges.contains(e));
        if survivor {
            return Some("lost-update:reference-removal-missed".to_string());
        }
    }
    None
}

/// diagnostic predicate over a deviating run: names the shape of the deviation.
/// `explained`: the stale-snapshot prediction of the pure model reproduces the stored outcome.
pub fn classify(
    init: &Init,
    muts: &[Mut],
    schedule: &[Event],
    mr: &ModelRun,
    actual: &Out,
    serial: &[(Vec<u8>, Out)],
    acked_dates: &[i64],
    explained: bool,
) -> Deviation {
    if serial.is_empty() {
        return Deviation {
            signature: "acknowledged-set-has-no-serial-order".into(),
            nearest_order: vec![],
            tokens: BTreeSet::new(),
        };
    }
    // the serial outcomes closest to the stored one, in permutation order
    let min = serial.iter().map(|(_, out)| distance(actual, out, acked_dates)).min().unwrap();
    let closest: Vec<&(Vec<u8>, Out)> =
        serial.iter().filter(|(_, out)| distance(actual, out, acked_dates) == min).collect();
    let first = closest[0];
    let first_tokens = serial_diff(actual, &first.1, acked_dates);
    let text = |t: &BTreeSet<String>| t.iter().cloned().collect::<Vec<_>>().join("+");
    if !explained {
        return Deviation {
            signature: format!("unexplained-outcome:{}", text(&first_tokens)),
            nearest_order: first.0.clone(),
            tokens: first_tokens,
        };
    }
    for (order, out) in closest.iter().map(|c| (&c.0, &c.1)) {
        let tokens = serial_diff(actual, out, acked_dates);
        if let Some(signature) = shape(init, muts, schedule, mr, actual, out, &tokens) {
            return Deviation { signature, nearest_order: order.clone(), tokens };
        }
    }
    // three mutations can combine two of the shapes above so that no single predicate holds
    // against any closest order; two mutations cannot, so that stays a signature of its own
    let signature = if muts.len() >= 3 {
        "lost-update:combined-shapes".to_string()
    } else {
        format!("unclassified-stale-snapshot-outcome:{}", text(&first_tokens))
    };
    Deviation { signature, nearest_order: first.0.clone(), tokens: first_tokens }
}

pub struct SetStats {
    pub schedules: u64,
    pub nontrivial: u64,
    pub deviations: u64,
}

/// decides every schedule of `schedules` for one mutation set
pub fn check_set(
    env: &mut Env,
    init: &Init,
    muts: &[Mut],
    dates: &[i64],
    schedules: &[Vec<Event>],
    o: &mut Outcome,
    many: bool,
) -> Result<SetStats, String> {
    let mut cache = SerialCache::new();
    let mut seen_sigs: BTreeSet<String> = BTreeSet::new();
    let mut serial_seen: BTreeSet<String> = BTreeSet::new();
    let mut stats = SetStats { schedules: 0, nontrivial: 0, deviations: 0 };
    for schedule in schedules {
        stats.schedules += 1;
        let rr = run_schedule(env, init, muts, dates, schedule)?;
        let mr = model_run(init, muts, dates, schedule);
        let nontrivial = reads_before_first_write(schedule) >= 2;
        if nontrivial {
            stats.nontrivial += 1;
            o.count("schedules_nontrivial", 1);
        }
        let two = needs_two_readers(schedule);
        o.count(if two { "schedules_needing_two_reader_threads" } else { "schedules_reachable_with_one_reader_thread" }, 1);
        if !many {
            o.label(if two { "reach:needs-two-reader-threads" } else { "reach:one-reader-thread" });
            o.label(format!("reads-before-first-write:{}", reads_before_first_write(schedule)));
        }
        let ctx = |rr: &RunResult| {
            format!(
                "init {:?} mutations {:?} dates {:?} schedule [{}] acks {:?} notes {:?}",
                init,
                muts,
                dates,
                schedule_text(schedule),
                rr.acks,
                rr.notes
            )
        };
        if !rr.sig_errors.is_empty() {
            report(o, &mut seen_sigs, "final-row-signature-invalid".into(), format!("{:?}; {}", rr.sig_errors, ctx(&rr)));
        }
        if !rr.unexpected.is_empty() {
            report(o, &mut seen_sigs, "unexpected-phase-error".into(), format!("{:?}; {}", rr.unexpected, ctx(&rr)));
        }
        if rr.acks != mr.acks {
            report(
                o,
                &mut seen_sigs,
                "acknowledgement-differs-from-model".into(),
                format!("model acks {:?}; {}", mr.acks, ctx(&rr)),
            );
        }
        // the orders of the acknowledged mutations
        let acked: Vec<u8> = (0..muts.len() as u8).filter(|i| rr.acks[*i as usize]).collect();
        let mut serial: Vec<(Vec<u8>, Out)> = vec![];
        for order in permutations(&acked) {
            if let Some(out) = cache.get(env, init, muts, dates, &order, o, &mut serial_seen)? {
                serial.push((order, out));
            }
        }
        let acked_dates: Vec<i64> = acked.iter().map(|i| dates[*i as usize]).collect();
        let matching = serial.iter().find(|(_, out)| serial_diff(&rr.out, out, &acked_dates).is_empty());
        let predicted_serial = serial.iter().any(|(_, out)| serial_diff(&mr.out, out, &acked_dates).is_empty());
        if !many {
            o.label(if predicted_serial { "predicted:serial-equivalent" } else { "predicted:deviation" });
            if nontrivial {
                o.label(if predicted_serial { "nontrivial+predicted:serial-equivalent" } else { "nontrivial+predicted:deviation" });
            }
        }
        match matching {
            Some((order, out)) => {
                o.count("schedules_equal_to_a_serial_order", 1);
                if *out != rr.out {
                    // informational: same row and references, but the stored date is the date of
                    // another acknowledged mutation than the last one of the matching order
                    o.count("schedules_serial_with_mdate_of_another_acknowledged_mutation", 1);
                }
                if !many {
                    o.label("outcome:serial");
                    if nontrivial && order.len() >= 2 {
                        o.label("outcome:serial-after-overlapping-reads");
                    }
                }
            }
            None => {
                stats.deviations += 1;
                o.count("schedules_deviating", 1);
                let explained = rr.out == mr.out;
                let d = classify(init, muts, schedule, &mr, &rr.out, &serial, &acked_dates, explained);
                if !many {
                    o.label(format!("outcome:{}", d.signature));
                }
                let near = serial.iter().find(|(ord, _)| *ord == d.nearest_order).map(|(_, out)| brief(out));
                report(
                    o,
                    &mut seen_sigs,
                    d.signature.clone(),
                    format!(
                        "stored {} equals no serial order of the acknowledged mutations {:?}; closest order {:?} gives {} (differs in {:?}); {}",
                        brief(&rr.out),
                        acked,
                        d.nearest_order,
                        near.unwrap_or_default(),
                        d.tokens,
                        ctx(&rr)
                    ),
                );
            }
        }
    }
    o.count("schedules_run", stats.schedules);
    o.count("serial_runs", cache.runs);
    Ok(stats)
}

/// one violation per signature and set; every occurrence is counted
fn report(o: &mut Outcome, seen: &mut BTreeSet<String>, sig: String, detail: String) {
    o.count(&format!("sig:{}", sig), 1);
    if seen.insert(sig.clone()) {
        o.violation(sig, detail);
    }
}
