//! Pure reference model for C16 (no code under test in this file).
//!
//! * the vocabulary of a case: initial row, mutations of that row, phase schedules;
//! * the meaning of ONE mutation applied atomically (`compute` on the current state followed by
//!   `apply`): this is what "applying the mutations one after another" means;
//! * the same two steps separated by a schedule (`model_run`): the "stale snapshot" prediction used
//!   ONLY to classify a deviation that the serial oracle has already established (a deviation that
//!   the prediction does not reproduce gets an `unexplained-outcome` signature).

use serde::{Deserialize, Serialize};
use std::collections::{BTreeMap, BTreeSet};

pub const FIELDS: [&str; 3] = ["a", "b", "c"];
pub const NPETS: u8 = 3;
pub const NFRIENDS: u8 = 3;
/// index of the room the authorisation actor does not know (a mutation moving the row there is
/// rejected in the validate phase, hence never acknowledged)
pub const UNKNOWN_ROOM: u8 = 2;

#[derive(Clone, Debug, Serialize, Deserialize, PartialEq, Eq, Hash, PartialOrd, Ord)]
pub enum RefOp {
    /// `friends:[{id:$t}]` (array reference: adds one target)
    AddFriend(u8),
    /// `friends:null`
    ClearFriends,
    /// `pet:{id:$t}` (single reference: replaces the target)
    SetPet(u8),
    /// `pet:null`
    ClearPet,
}

/// one mutation of the row R: `mutate { app.Item { id:$id [room_id] [a] [b] [c] [friends|pet] } }`
#[derive(Clone, Debug, Serialize, Deserialize, PartialEq, Eq, Hash, PartialOrd, Ord)]
pub struct Mut {
    /// (field index into FIELDS, value)
    pub sets: Vec<(u8, u8)>,
    pub refop: Option<RefOp>,
    /// room move: 0/1 known rooms, 2 unknown room (rejected)
    pub room: Option<u8>,
}

impl Mut {
    pub fn set(f: u8, v: u8) -> Mut {
        Mut { sets: vec![(f, v)], refop: None, room: None }
    }
    pub fn reference(r: RefOp) -> Mut {
        Mut { sets: vec![], refop: Some(r), room: None }
    }
    /// makes any deserialised value a mutation the generator could have produced
    pub fn normalised(&self) -> Mut {
        let mut sets: Vec<(u8, u8)> = vec![];
        for (f, v) in &self.sets {
            let f = f % FIELDS.len() as u8;
            if !sets.iter().any(|(g, _)| *g == f) {
                sets.push((f, *v));
            }
        }
        let refop = self.refop.as_ref().map(|r| match r {
            RefOp::AddFriend(t) => RefOp::AddFriend(t % NFRIENDS),
            RefOp::SetPet(t) => RefOp::SetPet(t % NPETS),
            other => other.clone(),
        });
        let room = self.room.map(|r| r % 3);
        if sets.is_empty() && refop.is_none() {
            // a room move alone is silently ignored by MutationQuery (`is_update && !field_updated`):
            // real callers move a row together with a field, so does the generator
            sets.push((0, 1));
        }
        Mut { sets, refop, room }
    }
    /// label of the shape of the mutation
    pub fn kind(&self) -> String {
        let mut parts: Vec<&str> = vec![];
        if !self.sets.is_empty() {
            parts.push("set");
        }
        match &self.refop {
            Some(RefOp::AddFriend(_)) => parts.push("add-friend"),
            Some(RefOp::ClearFriends) => parts.push("clear-friends"),
            Some(RefOp::SetPet(_)) => parts.push("set-pet"),
            Some(RefOp::ClearPet) => parts.push("clear-pet"),
            None => {}
        }
        match self.room {
            Some(UNKNOWN_ROOM) => parts.push("rejected-move"),
            Some(_) => parts.push("room-move"),
            None => {}
        }
        parts.join("+")
    }
    /// the shape of a stale writer, by priority
    pub fn writer_kind(&self) -> &'static str {
        if self.room.is_some() {
            return "room-move";
        }
        match &self.refop {
            Some(RefOp::SetPet(_)) => "reference-replace",
            Some(RefOp::ClearFriends) | Some(RefOp::ClearPet) => "reference-clear",
            Some(RefOp::AddFriend(_)) => "reference-add",
            None => "different-fields",
        }
    }
}

/// initial content of the row R
#[derive(Clone, Debug, Serialize, Deserialize, PartialEq, Eq)]
pub struct Init {
    pub a: u8,
    pub b: u8,
    pub c: u8,
    pub pet: Option<u8>,
    pub friends: Vec<u8>,
    pub room: u8,
}
impl Init {
    pub fn normalised(&self) -> Init {
        let mut friends: Vec<u8> = vec![];
        for f in &self.friends {
            let f = f % NFRIENDS;
            if !friends.contains(&f) {
                friends.push(f);
            }
        }
        friends.sort();
        Init {
            a: self.a,
            b: self.b,
            c: self.c,
            pet: self.pet.map(|p| p % NPETS),
            friends,
            room: self.room % 2,
        }
    }
    pub fn standard() -> Init {
        Init { a: 1, b: 2, c: 3, pet: Some(0), friends: vec![0], room: 0 }
    }
}

#[derive(Clone, Copy, Debug, Serialize, Deserialize, PartialEq, Eq, Hash, PartialOrd, Ord)]
pub enum Phase {
    /// read: MutationQuery::execute
    R,
    /// validate + sign: RoomAuthorisations::validate_mutation
    V,
    /// write: Writeable::write in a transaction
    W,
}
pub type Event = (Phase, u8);

/// every sequence of the 3n phase events that the pipeline permits:
/// R_i < V_i < W_i; the write order equals the validate order (both actors are FIFO)
pub fn all_schedules(n: usize) -> Vec<Vec<Event>> {
    fn rec(n: usize, st: &mut Vec<u8>, vorder: &mut Vec<u8>, wcount: usize, cur: &mut Vec<Event>, out: &mut Vec<Vec<Event>>) {
        if cur.len() == 3 * n {
            out.push(cur.clone());
            return;
        }
        for i in 0..n {
            match st[i] {
                0 => {
                    st[i] = 1;
                    cur.push((Phase::R, i as u8));
                    rec(n, st, vorder, wcount, cur, out);
                    cur.pop();
                    st[i] = 0;
                }
                1 => {
                    st[i] = 2;
                    vorder.push(i as u8);
                    cur.push((Phase::V, i as u8));
                    rec(n, st, vorder, wcount, cur, out);
                    cur.pop();
                    vorder.pop();
                    st[i] = 1;
                }
                2 => {
                    if vorder.get(wcount) == Some(&(i as u8)) {
                        st[i] = 3;
                        cur.push((Phase::W, i as u8));
                        rec(n, st, vorder, wcount + 1, cur, out);
                        cur.pop();
                        st[i] = 2;
                    }
                }
                _ => {}
            }
        }
    }
    let mut out = vec![];
    rec(n, &mut vec![0; n], &mut vec![], 0, &mut vec![], &mut out);
    out
}

/// the interleavings of reads and writes only (validate immediately before its write): every
/// schedule of `all_schedules` has the same read/write order as exactly one of these
pub fn rw_schedules(n: usize) -> Vec<Vec<Event>> {
    let mut seen = BTreeSet::new();
    let mut out = vec![];
    for s in all_schedules(n) {
        let rw: Vec<Event> = s.iter().filter(|e| e.0 != Phase::V).cloned().collect();
        if seen.insert(rw.clone()) {
            let mut full = vec![];
            for e in rw {
                if e.0 == Phase::W {
                    full.push((Phase::V, e.1));
                }
                full.push(e);
            }
            out.push(full);
        }
    }
    out
}

pub fn serial_schedule(order: &[u8]) -> Vec<Event> {
    let mut s = vec![];
    for i in order {
        s.push((Phase::R, *i));
        s.push((Phase::V, *i));
        s.push((Phase::W, *i));
    }
    s
}

/// a schedule the pipeline permits for exactly the mutations 0..n
pub fn schedule_is_valid(s: &[Event], n: usize) -> bool {
    if s.len() != 3 * n {
        return false;
    }
    let pos = |p: Phase, i: usize| s.iter().position(|e| e.0 == p && e.1 as usize == i);
    let mut vorder = vec![];
    let mut worder = vec![];
    for e in s {
        if e.1 as usize >= n {
            return false;
        }
        match e.0 {
            Phase::V => vorder.push(e.1),
            Phase::W => worder.push(e.1),
            Phase::R => {}
        }
    }
    for i in 0..n {
        match (pos(Phase::R, i), pos(Phase::V, i), pos(Phase::W, i)) {
            (Some(r), Some(v), Some(w)) if r < v && v < w => {}
            _ => return false,
        }
    }
    vorder == worder
}

/// number of reads before the first write
pub fn reads_before_first_write(s: &[Event]) -> usize {
    let mut n = 0;
    for e in s {
        match e.0 {
            Phase::R => n += 1,
            Phase::W => break,
            Phase::V => {}
        }
    }
    n
}

/// with ONE reader thread a read hands its mutation to the authorisation actor before the next
/// read starts, so the validate order equals the read order; with two or more reader threads
/// (default configuration: 4) any order is possible
pub fn needs_two_readers(s: &[Event]) -> bool {
    let r: Vec<u8> = s.iter().filter(|e| e.0 == Phase::R).map(|e| e.1).collect();
    let v: Vec<u8> = s.iter().filter(|e| e.0 == Phase::V).map(|e| e.1).collect();
    r != v
}

pub fn schedule_text(s: &[Event]) -> String {
    s.iter()
        .map(|e| format!("{:?}{}", e.0, e.1))
        .collect::<Vec<_>>()
        .join(" ")
}

// ---------------------------------------------------------------------------------------------
// observable state
// ---------------------------------------------------------------------------------------------

#[derive(Clone, Debug, PartialEq, Eq, PartialOrd, Ord, Serialize)]
pub struct RowOut {
    pub entity: String,
    pub room: Option<String>,
    /// modification date relative to the creation date of the row
    pub mdate: i64,
    /// field name -> compact JSON text of the value
    pub fields: BTreeMap<String, String>,
    /// number of stored rows with this id
    pub copies: u32,
}

/// what queries can observe of the world of a case: every user row and every reference
#[derive(Clone, Debug, Default, PartialEq, Eq, PartialOrd, Ord, Serialize)]
pub struct Out {
    pub rows: BTreeMap<String, RowOut>,
    /// (source row, field name, target row)
    pub edges: BTreeSet<(String, String, String)>,
}

pub fn room_name(r: u8) -> String {
    match r {
        0 => "room0".into(),
        1 => "room1".into(),
        _ => "roomX".into(),
    }
}
pub fn pet_name(i: u8) -> String {
    format!("P{}", i)
}
pub fn friend_name(i: u8) -> String {
    format!("F{}", i)
}
pub fn field_value(f: u8, v: u8) -> String {
    if FIELDS[f as usize] == "c" {
        serde_json::Value::String(format!("s{}", v)).to_string()
    } else {
        (v as i64).to_string()
    }
}

pub fn model_init(init: &Init) -> Out {
    let mut o = Out::default();
    for p in 0..NPETS {
        let mut fields = BTreeMap::new();
        fields.insert("name".to_string(), format!("\"{}\"", pet_name(p)));
        o.rows.insert(
            pet_name(p),
            RowOut { entity: "app.Pet".into(), room: Some(room_name(0)), mdate: 0, fields, copies: 1 },
        );
    }
    for f in 0..NFRIENDS {
        let mut fields = BTreeMap::new();
        fields.insert("name".to_string(), format!("\"{}\"", friend_name(f)));
        fields.insert("a".to_string(), "0".to_string());
        fields.insert("b".to_string(), "0".to_string());
        fields.insert("c".to_string(), "\"\"".to_string());
        o.rows.insert(
            friend_name(f),
            RowOut { entity: "app.Item".into(), room: Some(room_name(0)), mdate: 0, fields, copies: 1 },
        );
    }
    let mut fields = BTreeMap::new();
    fields.insert("name".to_string(), "\"R\"".to_string());
    fields.insert("a".to_string(), field_value(0, init.a));
    fields.insert("b".to_string(), field_value(1, init.b));
    fields.insert("c".to_string(), field_value(2, init.c));
    o.rows.insert(
        "R".into(),
        RowOut { entity: "app.Item".into(), room: Some(room_name(init.room)), mdate: 0, fields, copies: 1 },
    );
    if let Some(p) = init.pet {
        o.edges.insert(("R".into(), "pet".into(), pet_name(p)));
    }
    for f in &init.friends {
        o.edges.insert(("R".into(), "friends".into(), friend_name(*f)));
    }
    o
}

/// what a mutation decided to do, given the state it looked at
#[derive(Clone, Debug)]
pub struct Effect {
    /// the whole row image to store (None: the row is not written)
    pub node: Option<RowOut>,
    pub del: Vec<(String, String, String)>,
    pub ins: Vec<(String, String, String)>,
    /// accepted by the authorisation actor
    pub ack: bool,
}

pub fn compute(seen: &Out, m: &Mut, date: i64) -> Effect {
    let r = seen.rows.get("R").expect("model row R");
    let mut fields = r.fields.clone();
    let mut updated = false;
    for (f, v) in &m.sets {
        fields.insert(FIELDS[*f as usize].to_string(), field_value(*f, *v));
        updated = true;
    }
    let mut del = vec![];
    let mut ins = vec![];
    let of_label = |label: &str| -> Vec<(String, String, String)> {
        seen.edges.iter().filter(|e| e.0 == "R" && e.1 == label).cloned().collect()
    };
    match &m.refop {
        Some(RefOp::AddFriend(t)) => {
            let e = ("R".to_string(), "friends".to_string(), friend_name(*t));
            if !seen.edges.contains(&e) {
                ins.push(e);
                updated = true;
            }
        }
        Some(RefOp::ClearFriends) => {
            for e in of_label("friends") {
                del.push(e);
                updated = true;
            }
        }
        Some(RefOp::SetPet(t)) => {
            let e = ("R".to_string(), "pet".to_string(), pet_name(*t));
            if !seen.edges.contains(&e) {
                del.extend(of_label("pet"));
                ins.push(e);
                updated = true;
            }
        }
        Some(RefOp::ClearPet) => {
            for e in of_label("pet") {
                del.push(e);
                updated = true;
            }
        }
        None => {}
    }
    let room = match m.room {
        Some(x) => Some(room_name(x)),
        None => r.room.clone(),
    };
    let known_room = room.as_deref() != Some("roomX");
    let node = if updated {
        Some(RowOut { entity: r.entity.clone(), room, mdate: date, fields, copies: 1 })
    } else {
        None
    };
    // a mutation that writes nothing is acknowledged without a rights check
    let ack = node.is_none() || known_room;
    Effect { node, del, ins, ack }
}

pub fn apply(state: &mut Out, e: &Effect) {
    if !e.ack {
        return;
    }
    if let Some(n) = &e.node {
        state.rows.insert("R".into(), n.clone());
    }
    for d in &e.del {
        state.edges.remove(d);
    }
    for i in &e.ins {
        state.edges.insert(i.clone());
    }
}

pub struct ModelRun {
    pub out: Out,
    pub acks: Vec<bool>,
    pub effects: Vec<Option<Effect>>,
}

/// `dates[i]`: date of mutation i relative to the creation of the rows.
/// Only mutations occurring in the schedule are run.
pub fn model_run(init: &Init, muts: &[Mut], dates: &[i64], schedule: &[Event]) -> ModelRun {
    let mut state = model_init(init);
    let mut effects: Vec<Option<Effect>> = vec![None; muts.len()];
    let mut acks = vec![false; muts.len()];
    for (p, i) in schedule {
        let i = *i as usize;
        match p {
            Phase::R => effects[i] = Some(compute(&state, &muts[i], dates[i])),
            Phase::V => {}
            Phase::W => {
                if let Some(e) = &effects[i] {
                    apply(&mut state, e);
                    acks[i] = e.ack;
                }
            }
        }
    }
    ModelRun { out: state, acks, effects }
}

/// how two outcomes differ, as a sorted set of tokens
pub fn diff(actual: &Out, other: &Out) -> BTreeSet<String> {
    let mut t = BTreeSet::new();
    let names: BTreeSet<&String> = actual.rows.keys().chain(other.rows.keys()).collect();
    for n in names {
        match (actual.rows.get(n), other.rows.get(n)) {
            (Some(a), Some(b)) => {
                if n == "R" {
                    if a.fields != b.fields {
                        t.insert("field".to_string());
                    }
                    if a.room != b.room {
                        t.insert("room".to_string());
                    }
                    if a.mdate != b.mdate {
                        t.insert("mdate".to_string());
                    }
                    if a.copies != b.copies || a.entity != b.entity {
                        t.insert("copies".to_string());
                    }
                } else if a != b {
                    t.insert("other-row".to_string());
                }
            }
            _ => {
                t.insert("row-set".to_string());
            }
        }
    }
    for e in actual.edges.symmetric_difference(&other.edges) {
        if e.0 == "R" && e.1 == "pet" {
            t.insert("pet-reference".to_string());
        } else if e.0 == "R" && e.1 == "friends" {
            t.insert("friend-reference".to_string());
        } else {
            t.insert("other-reference".to_string());
        }
    }
    t
}

pub fn permutations(items: &[u8]) -> Vec<Vec<u8>> {
    if items.len() <= 1 {
        return vec![items.to_vec()];
    }
    let mut out = vec![];
    for i in 0..items.len() {
        let mut rest = items.to_vec();
        let x = rest.remove(i);
        for mut p in permutations(&rest) {
            p.insert(0, x);
            out.push(p);
        }
    }
    out
}

/// the mutation kinds of the exhaustive scope, on `Init::standard()`
pub fn catalogue() -> Vec<(&'static str, Mut)> {
    vec![
        ("set-a", Mut::set(0, 11)),
        ("set-b", Mut::set(1, 12)),
        ("set-a-again", Mut::set(0, 13)),
        ("add-friend-new", Mut::reference(RefOp::AddFriend(1))),
        ("add-friend-existing", Mut::reference(RefOp::AddFriend(0))),
        ("clear-friends", Mut::reference(RefOp::ClearFriends)),
        ("set-pet-1", Mut::reference(RefOp::SetPet(1))),
        ("set-pet-2", Mut::reference(RefOp::SetPet(2))),
        ("clear-pet", Mut::reference(RefOp::ClearPet)),
        ("move+set-c", Mut { sets: vec![(2, 14)], refop: None, room: Some(1) }),
        ("move+add-friend", Mut { sets: vec![], refop: Some(RefOp::AddFriend(2)), room: Some(1) }),
        ("set-a+add-friend", Mut { sets: vec![(0, 15)], refop: Some(RefOp::AddFriend(2)), room: None }),
        ("rejected-move+set-b", Mut { sets: vec![(1, 16)], refop: None, room: Some(UNKNOWN_ROOM) }),
        ("set-a+clear-friends", Mut { sets: vec![(0, 18)], refop: Some(RefOp::ClearFriends), room: None }),
        ("set-a+add-friend-existing", Mut { sets: vec![(0, 19)], refop: Some(RefOp::AddFriend(0)), room: None }),
    ]
}

/// all multisets of size k over 0..n
pub fn multisets(n: usize, k: usize) -> Vec<Vec<usize>> {
    fn rec(n: usize, k: usize, from: usize, cur: &mut Vec<usize>, out: &mut Vec<Vec<usize>>) {
        if cur.len() == k {
            out.push(cur.clone());
            return;
        }
        for i in from..n {
            cur.push(i);
            rec(n, k, i, cur, out);
            cur.pop();
        }
    }
    let mut out = vec![];
    rec(n, k, 0, &mut vec![], &mut out);
    out
}
