//! The real phases of the mutation pipeline, run one by one on an in-memory connection.

use crate::model::*;
use discret::verif as dv;
use discret::{Parameters, ParametersAdd};
use dv::database::authorisation_service::RoomAuthorisations;
use dv::database::edge::Edge;
use dv::database::mutation_query::MutationQuery;
use dv::database::node::Node;
use dv::database::query_language::data_model_parser::DataModel;
use dv::database::query_language::mutation_parser::MutationParser;
use dv::database::room::{Authorisation, EntityRight, Room, User};
use dv::database::sqlite_database::{prepare_connection, Writeable};
use dv::database::system_entities::SYSTEM_DATA_MODEL;
use dv::security::{base64_encode, derive_uid, uid_from, SigningKey, Uid};
use rusqlite::Connection;
use std::collections::{BTreeMap, HashMap};
use std::sync::Arc;

pub const MODEL: &str = "app {
    Item {
        name: String,
        a: Integer default 0,
        b: Integer default 0,
        c: String default \"\",
        pet: app.Pet nullable,
        friends: [app.Item] nullable
    }
    Pet {
        name: String
    }
}";

pub const T0: i64 = dv_world_t0();
const fn dv_world_t0() -> i64 {
    1_704_067_200_000
}

/// translation of stored identifiers into the names of the model
#[derive(Clone, Debug, Default)]
pub struct Names {
    /// row id -> (name, creation date)
    pub ids: BTreeMap<Vec<u8>, (String, i64)>,
    pub rooms: BTreeMap<Vec<u8>, String>,
    /// entity short name -> (entity name, field short name -> field name)
    pub entities: BTreeMap<String, (String, BTreeMap<String, String>)>,
    /// rows with unknown ids are reported (in-memory world) or ignored (shared instance)
    pub strict: bool,
}

pub struct ReadResult {
    pub out: Out,
    pub sig_errors: Vec<String>,
}

pub fn entity_names(dm: &DataModel) -> BTreeMap<String, (String, BTreeMap<String, String>)> {
    let mut m = BTreeMap::new();
    for name in ["app.Item", "app.Pet"] {
        let e = dm.get_entity(name).expect("entity");
        let mut fields = BTreeMap::new();
        for (fname, f) in &e.fields {
            fields.insert(f.short_name.clone(), fname.clone());
        }
        m.insert(e.short_name.clone(), (name.to_string(), fields));
    }
    m
}

pub fn data_model() -> DataModel {
    let mut dm = DataModel::new();
    dm.update_system(SYSTEM_DATA_MODEL).expect("system model");
    dm.update(MODEL).expect("model");
    dm
}

/// every user row and reference stored behind `conn`, in the vocabulary of the model; verifies
/// the signature of every row and reference it reports
pub fn read_out(conn: &Connection, names: &Names) -> Result<ReadResult, String> {
    let e2s = |e: rusqlite::Error| e.to_string();
    let mut out = Out::default();
    let mut sig_errors = vec![];
    let mut st = conn
        .prepare("SELECT id, room_id, mdate, _entity, _json FROM _node ORDER BY rowid")
        .map_err(e2s)?;
    let mut rows = st.query([]).map_err(e2s)?;
    let mut to_verify: Vec<(Vec<u8>, String, String)> = vec![];
    while let Some(r) = rows.next().map_err(e2s)? {
        let id: Vec<u8> = r.get(0).map_err(e2s)?;
        let room: Option<Vec<u8>> = r.get(1).map_err(e2s)?;
        let mdate: i64 = r.get(2).map_err(e2s)?;
        let entity: String = r.get(3).map_err(e2s)?;
        let json: Option<String> = r.get(4).map_err(e2s)?;
        let (ename, fnames) = match names.entities.get(&entity) {
            Some(e) => e,
            None => continue,
        };
        let (sym, base) = match names.ids.get(&id) {
            Some(s) => s.clone(),
            None => {
                if names.strict {
                    (format!("?{}", base64_encode(&id)), 0)
                } else {
                    continue;
                }
            }
        };
        let mut fields = BTreeMap::new();
        if let Some(j) = &json {
            let v: serde_json::Value = serde_json::from_str(j).map_err(|e| e.to_string())?;
            if let Some(obj) = v.as_object() {
                for (k, val) in obj {
                    let fname = fnames.get(k).cloned().unwrap_or_else(|| format!("?{}", k));
                    fields.insert(fname, val.to_string());
                }
            } else {
                fields.insert("?not-an-object".into(), j.clone());
            }
        }
        let room = room.map(|r| names.rooms.get(&r).cloned().unwrap_or_else(|| format!("?{}", base64_encode(&r))));
        match out.rows.get_mut(&sym) {
            Some(existing) => existing.copies += 1,
            None => {
                out.rows.insert(
                    sym.clone(),
                    RowOut { entity: ename.clone(), room, mdate: mdate - base, fields, copies: 1 },
                );
            }
        }
        to_verify.push((id, entity, sym));
    }
    drop(rows);
    drop(st);
    for (id, entity, sym) in to_verify {
        let uid = uid_from(id).map_err(|e| e.to_string())?;
        match Node::get_with_entity(&uid, &entity, conn).map_err(e2s)? {
            Some(n) => {
                if let Err(e) = n.verify() {
                    sig_errors.push(format!("row {}: {}", sym, e));
                }
            }
            None => sig_errors.push(format!("row {} vanished", sym)),
        }
    }
    let mut st = conn
        .prepare("SELECT src, src_entity, label, dest FROM _edge")
        .map_err(e2s)?;
    let mut rows = st.query([]).map_err(e2s)?;
    let mut edges: Vec<(Vec<u8>, String, String, Vec<u8>)> = vec![];
    while let Some(r) = rows.next().map_err(e2s)? {
        edges.push((
            r.get(0).map_err(e2s)?,
            r.get(1).map_err(e2s)?,
            r.get(2).map_err(e2s)?,
            r.get(3).map_err(e2s)?,
        ));
    }
    drop(rows);
    drop(st);
    for (src, src_entity, label, dest) in edges {
        let (_, fnames) = match names.entities.get(&src_entity) {
            Some(e) => e,
            None => continue,
        };
        let s = match names.ids.get(&src) {
            Some(s) => s.0.clone(),
            None => {
                if names.strict {
                    format!("?{}", base64_encode(&src))
                } else {
                    continue;
                }
            }
        };
        let d = match names.ids.get(&dest) {
            Some(s) => s.0.clone(),
            None => format!("?{}", base64_encode(&dest)),
        };
        let l = fnames.get(&label).cloned().unwrap_or_else(|| format!("?{}", label));
        let su = uid_from(src).map_err(|e| e.to_string())?;
        let du = uid_from(dest).map_err(|e| e.to_string())?;
        match Edge::get(&su, &label, &du, conn).map_err(|e| e.to_string())? {
            Some(e) => {
                if let Err(err) = e.verify() {
                    sig_errors.push(format!("reference {} {} {}: {}", s, l, d, err));
                }
            }
            None => sig_errors.push(format!("reference {} {} {} vanished", s, l, d)),
        }
        out.edges.insert((s, l, d));
    }
    Ok(ReadResult { out, sig_errors })
}

/// the text and the parameters of a mutation of row `id`
pub fn build_mutation(
    m: &Mut,
    id: &str,
    rooms: &[String],
    pets: &[String],
    friends: &[String],
) -> (String, Parameters) {
    let mut p = Parameters::new();
    let mut body = String::from("id:$id ");
    p.add("id", id.to_string()).unwrap();
    if let Some(r) = m.room {
        body.push_str("room_id:$room ");
        p.add("room", rooms[r as usize].clone()).unwrap();
    }
    for (f, v) in &m.sets {
        let name = FIELDS[*f as usize];
        body.push_str(&format!("{}:${} ", name, name));
        if name == "c" {
            p.add(name, format!("s{}", v)).unwrap();
        } else {
            p.add(name, *v as i64).unwrap();
        }
    }
    match &m.refop {
        Some(RefOp::AddFriend(t)) => {
            body.push_str("friends:[{id:$t}] ");
            p.add("t", friends[*t as usize].clone()).unwrap();
        }
        Some(RefOp::ClearFriends) => body.push_str("friends:null "),
        Some(RefOp::SetPet(t)) => {
            body.push_str("pet:{id:$t} ");
            p.add("t", pets[*t as usize].clone()).unwrap();
        }
        Some(RefOp::ClearPet) => body.push_str("pet:null "),
        None => {}
    }
    (format!("mutate {{ app.Item {{ {} }} }}", body), p)
}

/// the creation of the row R
pub fn build_creation(init: &Init, rooms: &[String], pets: &[String], friends: &[String]) -> (String, Parameters) {
    let mut p = Parameters::new();
    let mut body = String::from("room_id:$room name:\"R\" a:$a b:$b c:$c ");
    p.add("room", rooms[init.room as usize].clone()).unwrap();
    p.add("a", init.a as i64).unwrap();
    p.add("b", init.b as i64).unwrap();
    p.add("c", format!("s{}", init.c)).unwrap();
    if let Some(pet) = init.pet {
        body.push_str("pet:{id:$pet} ");
        p.add("pet", pets[pet as usize].clone()).unwrap();
    }
    if !init.friends.is_empty() {
        let mut l = vec![];
        for f in &init.friends {
            l.push(format!("{{id:$f{}}}", f));
            p.add(&format!("f{}", f), friends[*f as usize].clone()).unwrap();
        }
        body.push_str(&format!("friends:[{}] ", l.join(",")));
    }
    (format!("mutate {{ app.Item {{ {} }} }}", body), p)
}

pub struct Env {
    pub dm: DataModel,
    pub auth: RoomAuthorisations,
    pub rooms: Vec<Uid>,
    pub rooms64: Vec<String>,
    pub entities: BTreeMap<String, (String, BTreeMap<String, String>)>,
    parsers: HashMap<String, Arc<MutationParser>>,
}

fn full_rights_room(id: Uid, verifying_key: &[u8]) -> Room {
    let mut room = Room { id, ..Default::default() };
    let mut auth = Authorisation { id: derive_uid("c16 auth", &id), ..Default::default() };
    auth.add_user(User { verifying_key: verifying_key.to_vec(), date: 0, enabled: true }).unwrap();
    auth.add_right(EntityRight::new(0, "*".to_string(), true, true)).unwrap();
    room.add_auth(auth).unwrap();
    room
}

impl Env {
    pub fn new() -> Env {
        let dm = data_model();
        let signing_key = dv::security::Ed25519SigningKey::create_from(&dv::security::derive_key(
            "c16 SIGNING_KEY",
            b"c16 key material",
        ));
        let vk = signing_key.export_verifying_key();
        let rooms: Vec<Uid> = (0..3).map(|i| derive_uid(&format!("c16 room {}", i), b"c16")).collect();
        let mut auth = RoomAuthorisations { signing_key, rooms: HashMap::new(), max_node_size: 256 * 1024 };
        // rooms 0 and 1 grant every right to the local key; room 2 is unknown to the actor
        auth.add_room(full_rights_room(rooms[0], &vk));
        auth.add_room(full_rights_room(rooms[1], &vk));
        let rooms64 = rooms.iter().map(|r| base64_encode(r)).collect();
        let entities = entity_names(&dm);
        Env { dm, auth, rooms, rooms64, entities, parsers: HashMap::new() }
    }

    fn parser(&mut self, q: &str) -> Result<Arc<MutationParser>, String> {
        if let Some(p) = self.parsers.get(q) {
            return Ok(p.clone());
        }
        let p = Arc::new(MutationParser::parse(q, &self.dm).map_err(|e| format!("parse {}: {}", q, e))?);
        self.parsers.insert(q.to_string(), p.clone());
        Ok(p)
    }

    /// all three phases of one mutation, back to back
    fn exec_full(&mut self, conn: &Connection, q: &str, mut p: Parameters) -> Result<MutationQuery, String> {
        let parser = self.parser(q)?;
        let mut mq = MutationQuery::execute(&mut p, parser, conn).map_err(|e| format!("read {}: {}", q, e))?;
        self.auth.validate_mutation(&mut mq).map_err(|e| format!("validate {}: {}", q, e))?;
        write_in_transaction(conn, &mut mq)?;
        Ok(mq)
    }
}

/// the write phase as the batch writer runs it (process_batch_write): BEGIN, write, ROLLBACK on
/// error, COMMIT otherwise. One write per transaction: a read placed between two writes of the
/// schedule sees the first one, exactly like a reader connection after the commit of a batch;
/// a read placed before both sees what a reader sees while the batch is still open.
pub fn write_in_transaction(conn: &Connection, mq: &mut MutationQuery) -> Result<(), String> {
    conn.execute("BEGIN TRANSACTION", []).map_err(|e| e.to_string())?;
    match mq.write(conn) {
        Ok(()) => conn.execute("COMMIT", []).map(|_| ()).map_err(|e| e.to_string()),
        Err(e) => {
            let _ = conn.execute("ROLLBACK", []);
            Err(e.to_string())
        }
    }
}

pub struct World {
    pub conn: Connection,
    pub names: Names,
    pub r: String,
    pub pets: Vec<String>,
    pub friends: Vec<String>,
}

fn first_id(mq: &MutationQuery) -> Uid {
    mq.mutate_entities[0].node_to_mutate.id
}

/// a fresh in-memory database holding the pets, the friends and the row R
pub fn setup(env: &mut Env, init: &Init) -> Result<World, String> {
    dv::set_uid_seed(1);
    dv::set_clock(T0);
    let conn = Connection::open_in_memory().map_err(|e| e.to_string())?;
    prepare_connection(&conn).map_err(|e| e.to_string())?;
    let mut names = Names { entities: env.entities.clone(), strict: true, ..Default::default() };
    for (i, r) in env.rooms.iter().enumerate() {
        names.rooms.insert(r.to_vec(), room_name(i as u8));
    }
    let mut pets = vec![];
    for i in 0..NPETS {
        let mut p = Parameters::new();
        p.add("room", env.rooms64[0].clone()).unwrap();
        p.add("n", pet_name(i)).unwrap();
        let mq = env.exec_full(&conn, "mutate { app.Pet { room_id:$room name:$n } }", p)?;
        let id = first_id(&mq);
        names.ids.insert(id.to_vec(), (pet_name(i), T0));
        pets.push(base64_encode(&id));
    }
    let mut friends = vec![];
    for i in 0..NFRIENDS {
        let mut p = Parameters::new();
        p.add("room", env.rooms64[0].clone()).unwrap();
        p.add("n", friend_name(i)).unwrap();
        let mq = env.exec_full(&conn, "mutate { app.Item { room_id:$room name:$n } }", p)?;
        let id = first_id(&mq);
        names.ids.insert(id.to_vec(), (friend_name(i), T0));
        friends.push(base64_encode(&id));
    }
    let rooms64 = env.rooms64.clone();
    let (q, p) = build_creation(init, &rooms64, &pets, &friends);
    let mq = env.exec_full(&conn, &q, p)?;
    let id = first_id(&mq);
    names.ids.insert(id.to_vec(), ("R".to_string(), T0));
    Ok(World { conn, names, r: base64_encode(&id), pets, friends })
}

pub struct RunResult {
    pub out: Out,
    pub acks: Vec<bool>,
    pub sig_errors: Vec<String>,
    /// rejections and errors per phase, "<phase><i>:<text>"
    pub notes: Vec<String>,
    /// errors that no schedule of this check should produce
    pub unexpected: Vec<String>,
}

/// runs the events of `schedule` as the real functions, in that order, on a fresh world.
/// `dates[i]`: the clock (relative to the creation of the rows) when mutation i is read.
pub fn run_schedule(
    env: &mut Env,
    init: &Init,
    muts: &[Mut],
    dates: &[i64],
    schedule: &[Event],
) -> Result<RunResult, String> {
    let w = setup(env, init)?;
    let mut pending: Vec<Option<MutationQuery>> = (0..muts.len()).map(|_| None).collect();
    let mut acks = vec![false; muts.len()];
    let mut notes = vec![];
    let mut unexpected = vec![];
    let rooms64 = env.rooms64.clone();
    for (phase, i) in schedule {
        let i = *i as usize;
        match phase {
            Phase::R => {
                dv::set_clock(T0 + dates[i]);
                let (q, mut p) = build_mutation(&muts[i], &w.r, &rooms64, &w.pets, &w.friends);
                let parser = env.parser(&q)?;
                match MutationQuery::execute(&mut p, parser, &w.conn) {
                    Ok(mq) => pending[i] = Some(mq),
                    Err(e) => {
                        notes.push(format!("R{}:{}", i, e));
                        unexpected.push(format!("read of mutation {} failed: {}", i, e));
                    }
                }
            }
            Phase::V => {
                if let Some(mq) = pending[i].as_mut() {
                    match env.auth.validate_mutation(mq) {
                        Ok(rooms) => {
                            if !rooms.is_empty() {
                                unexpected.push(format!("mutation {} was taken for a room definition", i));
                            }
                        }
                        Err(e) => {
                            notes.push(format!("V{}:{}", i, e));
                            pending[i] = None;
                        }
                    }
                }
            }
            Phase::W => {
                if let Some(mut mq) = pending[i].take() {
                    match write_in_transaction(&w.conn, &mut mq) {
                        Ok(()) => acks[i] = true,
                        Err(e) => {
                            notes.push(format!("W{}:{}", i, e));
                            unexpected.push(format!("write of mutation {} failed: {}", i, e));
                        }
                    }
                }
            }
        }
    }
    let rr = read_out(&w.conn, &w.names)?;
    Ok(RunResult { out: rr.out, acks, sig_errors: rr.sig_errors, notes, unexpected })
}
