//! C02: rows received from peers are stored only if their author had the right.
//!
//! The victim runs the real pull (LocalPeerService::synchronise_room) against an EVIL SERVER played by
//! the harness: it answers the protocol queries itself, so it controls every row, its signature, the
//! slot (entity, day) under which it is advertised and the composition of every answer.
use discret::verif as dvv;
use dv::engine::*;
use dv::rights::*;
use dv::world::*;
use dvv::database::daily_log::{DailyLog, RoomDefinitionLog};
use dvv::database::edge::{Edge, EdgeDeletionEntry};
use dvv::database::node::{Node, NodeDeletionEntry, NodeIdentifier};
use dvv::security::{new_uid, Ed25519SigningKey, SigningKey, Uid};
use dvv::synchronisation::peer_inbound_service::{LocalPeerService, QueryService};
use dvv::synchronisation::{Answer, Query, QueryProtocol};
use proptest::prelude::*;
use serde::{Deserialize, Serialize};
use std::collections::{BTreeMap, BTreeSet, HashSet, VecDeque};
use tokio::sync::mpsc;

struct C02;

/// who signs a crafted row
/// 0 = E (member, own-rows right on Item only, from the start)
/// 1 = M (member with own-rows rights on everything, DISABLED at T_DIS)
/// 2 = N (never a member)
/// 3 = L (member enabled only from T_LATE on)
/// 4 = F (member with the all-rows right; in the other room R2 only until T_LATE)
const AUTHORS: u8 = 5;

#[derive(Clone, Debug, Serialize, Deserialize, PartialEq)]
pub enum Flaw {
    None,
    /// room_id of the other room (the author has rights there, but it is not the room being synchronised)
    WrongRoom,
    NoRoom,
    UnknownEntity,
    /// JSON violating the model: 0 missing required field, 1 wrong type, 2 not an object, 3 no JSON at all
    BadJson(u8),
    Oversized,
    /// a field changed after signing
    Tampered(u8),
    /// carries the signature of another crafted row of the same author
    ForeignSignature,
    /// advertised under another entity's slot
    OtherSlot,
}

#[derive(Clone, Debug, Serialize, Deserialize, PartialEq)]
pub enum Crafted {
    /// a new row
    NewRow { author: u8, entity: u8, when: u8, flaw: Flaw },
    /// a newer version of a row the victim holds (index into the honest rows)
    Replace { author: u8, target: u16, when: u8, move_room: bool, flaw: Flaw },
    /// a reference from a row to another
    Reference { author: u8, src: u16, dest: u16, when: u8, label: u8, src_entity_ok: bool },
    /// a deletion record for a row the victim holds
    DeleteRow { author: u8, target: u16, when: u8, wrong_room: bool, forged_version: bool },
    /// a deletion record for a reference the victim holds
    DeleteRef { author: u8, target: u16, when: u8 },
}

#[derive(Clone, Debug, Serialize, Deserialize)]
pub struct Case {
    pub items: Vec<Crafted>,
    /// how the evil server splits its answers (rows per answer) and orders them
    pub split: u8,
    pub perm: u64,
}

const T_CREATE: i64 = T0 + 1000;
const T_DIS: i64 = T0 + 2 * DAY; // M disabled
const T_LATE: i64 = T0 + 3 * DAY; // L enabled
const T_NOW: i64 = T0 + 5 * DAY;
/// dates a crafted row can carry
fn date_of(when: u8) -> i64 {
    match when % 6 {
        0 => T0 + DAY + 5000,     // M enabled, L not yet
        1 => T_DIS + 5000,        // M disabled, L not yet
        2 => T_LATE + 5000,       // L enabled
        3 => T_NOW - 1000,        // recent
        4 => T_CREATE - 500,      // before the room existed
        _ => T_NOW + 10 * DAY,    // in the future
    }
}

fn flaw_strategy() -> impl Strategy<Value = Flaw> {
    prop_oneof![
        6 => Just(Flaw::None),
        1 => Just(Flaw::WrongRoom),
        1 => Just(Flaw::NoRoom),
        1 => Just(Flaw::UnknownEntity),
        2 => (0u8..4).prop_map(Flaw::BadJson),
        1 => Just(Flaw::Oversized),
        1 => (0u8..5).prop_map(Flaw::Tampered),
        1 => Just(Flaw::ForeignSignature),
        1 => Just(Flaw::OtherSlot),
    ]
}

fn strategy(max_items: usize) -> BoxedStrategy<Case> {
    let item = prop_oneof![
        6 => (0u8..AUTHORS, 0u8..2, 0u8..6, flaw_strategy()).prop_map(|(author, entity, when, flaw)| Crafted::NewRow { author, entity, when, flaw }),
        4 => (0u8..AUTHORS, any::<u16>(), 0u8..6, any::<bool>(), prop_oneof![4 => Just(Flaw::None), 1 => (0u8..4).prop_map(Flaw::BadJson), 1 => (0u8..5).prop_map(Flaw::Tampered)])
            .prop_map(|(author, target, when, move_room, flaw)| Crafted::Replace { author, target, when, move_room, flaw }),
        3 => (0u8..AUTHORS, any::<u16>(), any::<u16>(), 0u8..6, 0u8..4, prop_oneof![4 => Just(true), 1 => Just(false)])
            .prop_map(|(author, src, dest, when, label, src_entity_ok)| Crafted::Reference { author, src, dest, when, label, src_entity_ok }),
        3 => (0u8..AUTHORS, any::<u16>(), 0u8..6, prop_oneof![4 => Just(false), 1 => Just(true)], prop_oneof![4 => Just(false), 1 => Just(true)])
            .prop_map(|(author, target, when, wrong_room, forged_version)| Crafted::DeleteRow { author, target, when, wrong_room, forged_version }),
        1 => (0u8..AUTHORS, any::<u16>(), 0u8..6).prop_map(|(author, target, when)| Crafted::DeleteRef { author, target, when }),
    ];
    (proptest::collection::vec(item, 2..max_items), 1u8..6, any::<u64>())
        .prop_map(|(items, split, perm)| Case { items, split, perm })
        .boxed()
}

struct Keys {
    e: Ed25519SigningKey,
    m: Ed25519SigningKey,
    n: Ed25519SigningKey,
    l: Ed25519SigningKey,
    f: Ed25519SigningKey,
}
impl Keys {
    fn get(&self, a: u8) -> &Ed25519SigningKey {
        match a % AUTHORS {
            0 => &self.e,
            1 => &self.m,
            2 => &self.n,
            3 => &self.l,
            _ => &self.f,
        }
    }
}

/// what the evil server will serve
#[derive(Default)]
struct Evil {
    room: Uid,
    def_date: i64,
    nodes: Vec<(Node, String)>, // node, advertised entity slot
    edges: Vec<Edge>,
    node_dels: Vec<NodeDeletionEntry>,
    edge_dels: Vec<EdgeDeletionEntry>,
    split: usize,
}

fn day(t: i64) -> i64 {
    t.div_euclid(DAY) * DAY
}

async fn evil_server(evil: Evil, mut q_rx: mpsc::Receiver<QueryProtocol>, a_tx: mpsc::Sender<Answer>) {
    async fn send<T: Serialize>(a_tx: &mpsc::Sender<Answer>, id: u64, complete: bool, v: &T) {
        let _ = a_tx.send(Answer { id, success: true, complete, serialized: bincode::serialize(v).unwrap() }).await;
    }
    // the slots (entity, day) of everything served
    let mut slots: BTreeSet<(String, i64)> = BTreeSet::new();
    for (n, slot) in &evil.nodes {
        slots.insert((slot.clone(), day(n.mdate)));
    }
    for d in &evil.node_dels {
        slots.insert((d.entity.clone(), day(d.deletion_date)));
    }
    for d in &evil.edge_dels {
        slots.insert((d.src_entity.clone(), day(d.deletion_date)));
    }
    while let Some(msg) = q_rx.recv().await {
        let id = msg.id;
        match msg.query {
            Query::RoomDefinition(r) => {
                let last = slots.iter().map(|s| s.1).max();
                let def = if r == evil.room {
                    Some(RoomDefinitionLog { room_id: r, room_def_date: evil.def_date, last_data_date: last, entry_number: Some(1), daily_hash: Some(vec![1; 32]), history_hash: Some(vec![2; 32]) })
                } else {
                    None
                };
                send(&a_tx, id, true, &def).await;
            }
            Query::PeersForRoom(_) => {
                send(&a_tx, id, true, &"").await;
            }
            Query::RoomLog(r) | Query::RoomLogAt(r, _) => {
                let logs: Vec<DailyLog> = slots
                    .iter()
                    .enumerate()
                    .map(|(i, (e, d))| DailyLog { room_id: r, date: *d, entity: e.clone(), entry_number: 1, daily_hash: Some(vec![3 + i as u8; 32]), history_hash: Some(vec![4; 32]), need_recompute: false })
                    .collect();
                let multiple = matches!(msg.query, Query::RoomLog(_));
                if multiple {
                    send(&a_tx, id, false, &logs).await;
                    send(&a_tx, id, true, &"").await;
                } else {
                    send(&a_tx, id, true, &logs).await;
                }
            }
            Query::EdgeDeletionLog(_, entity, date) => {
                let v: Vec<&EdgeDeletionEntry> = evil.edge_dels.iter().filter(|d| d.src_entity == entity && day(d.deletion_date) == day(date)).collect();
                for chunk in v.chunks(evil.split.max(1)) {
                    send(&a_tx, id, false, &chunk.to_vec()).await;
                }
                send(&a_tx, id, true, &"").await;
            }
            Query::NodeDeletionLog(_, entity, date) => {
                let v: Vec<&NodeDeletionEntry> = evil.node_dels.iter().filter(|d| d.entity == entity && day(d.deletion_date) == day(date)).collect();
                for chunk in v.chunks(evil.split.max(1)) {
                    send(&a_tx, id, false, &chunk.to_vec()).await;
                }
                send(&a_tx, id, true, &"").await;
            }
            Query::RoomDailyNodes(_, entity, date) => {
                let v: HashSet<NodeIdentifier> = evil
                    .nodes
                    .iter()
                    .filter(|(n, slot)| *slot == entity && day(n.mdate) == day(date))
                    .map(|(n, _)| NodeIdentifier { id: n.id, mdate: n.mdate, signature: n._signature.clone() })
                    .collect();
                send(&a_tx, id, false, &v).await;
                send(&a_tx, id, true, &"").await;
            }
            Query::Nodes(_, ids) => {
                let v: Vec<&Node> = evil.nodes.iter().filter(|(n, _)| ids.contains(&n.id)).map(|(n, _)| n).collect();
                for chunk in v.chunks(evil.split.max(1)) {
                    send(&a_tx, id, false, &chunk.to_vec()).await;
                }
                send(&a_tx, id, true, &"").await;
            }
            Query::Edges(_, _ids) => {
                // every crafted reference is sent whatever was asked
                for chunk in evil.edges.chunks(evil.split.max(1)) {
                    send(&a_tx, id, false, &chunk.to_vec()).await;
                }
                send(&a_tx, id, true, &"").await;
            }
            Query::RoomNode(_) => {
                let none: Option<dvv::database::room_node::RoomNode> = None;
                send(&a_tx, id, true, &none).await;
            }
            Query::RoomList => {
                let mut v = VecDeque::new();
                v.push_back(evil.room);
                send(&a_tx, id, false, &v).await;
                send(&a_tx, id, true, &"").await;
            }
            _ => {
                send(&a_tx, id, true, &"").await;
            }
        }
    }
}

/// signs whatever the row contains (Node::sign refuses content that is not a JSON object; an attacker is not bound by that)
fn force_sign(n: &mut Node, key: &Ed25519SigningKey) {
    n.verifying_key = key.export_verifying_key();
    match n.hash() {
        Ok(h) => n._signature = key.sign(h.as_bytes()),
        Err(_) => n._signature = vec![0; 64],
    }
}

fn item_json(entity: u8, text: &str) -> String {
    if entity % 2 == 0 {
        serde_json::json!({"32": text, "33": 1}).to_string()
    } else {
        serde_json::json!({"32": text}).to_string()
    }
}
fn short(entity: u8) -> &'static str {
    if entity % 2 == 0 { "1.0" } else { "1.1" }
}
fn ename(short: &str) -> &'static str {
    if short == "1.0" { "app.Item" } else { "app.Note" }
}

/// independent model validation of a row's content
fn json_conforms(entity_short: &str, json: &Option<String>) -> bool {
    let Some(j) = json else { return false };
    let Ok(v) = serde_json::from_str::<serde_json::Value>(j) else { return false };
    let Some(o) = v.as_object() else { return false };
    match entity_short {
        "1.0" => o.get("32").map(|x| x.is_string()).unwrap_or(false) && o.get("33").map(|x| x.is_i64() || x.is_u64()).unwrap_or(true),
        "1.1" => o.get("32").map(|x| x.is_string()).unwrap_or(false),
        _ => false,
    }
}

impl Property for C02 {
    type Case = Case;
    const ID: &'static str = "C02";
    fn plan(tier: Tier) -> Plan {
        match tier {
            Tier::Quick => Plan { shards: 16, cases_per_shard: 60, max_shrink_iters: 250 },
            Tier::Thorough => Plan { shards: 16, cases_per_shard: 2500, max_shrink_iters: 500 },
        }
    }
    fn strategy(tier: Tier) -> BoxedStrategy<Case> {
        match tier {
            Tier::Quick => strategy(9),
            Tier::Thorough => strategy(16),
        }
    }
    fn run(case: &Case, ctx: &RunCtx) -> Outcome {
        begin_case(1);
        let dir = ctx.case_dir("c02");
        let rt = runtime();
        let out = rt.block_on(async {
            let mut o = Outcome::default();
            let cfg = discret::Configuration { max_object_size_in_kb: 1, ..config() };
            let admin = match Peer::start_with("admin", dv::syncworld::MODEL, dir.join("a"), &cfg).await {
                Ok(p) => p,
                Err(e) => {
                    o.discard = Some(e);
                    return o;
                }
            };
            let victim = match Peer::start_with("victim", dv::syncworld::MODEL, dir.join("v"), &cfg).await {
                Ok(p) => p,
                Err(e) => {
                    o.discard = Some(e);
                    return o;
                }
            };
            let keys = Keys {
                e: signing_key_for_secret(&secret_for("evil")),
                m: signing_key_for_secret(&secret_for("member")),
                n: signing_key_for_secret(&secret_for("nobody")),
                l: signing_key_for_secret(&secret_for("late")),
                f: signing_key_for_secret(&secret_for("full")),
            };
            let k64 = |k: &Ed25519SigningKey| b64(&k.export_verifying_key());
            // the room being synchronised (R) and another one (R2) in which E has every right
            Clock::set(T_CREATE);
            let mut rooms: Vec<(Uid, String, String)> = vec![];
            for which in 0..2 {
                Clock::advance(1);
                let mut p = Parameters::new();
                p.add("me", admin.key64()).unwrap();
                p.add("v", victim.key64()).unwrap();
                p.add("e", k64(&keys.e)).unwrap();
                p.add("m", k64(&keys.m)).unwrap();
                p.add("f", k64(&keys.f)).unwrap();
                let q = if which == 0 {
                    "mutate { sys.Room { admin:[{verif_key:$me}] authorisations:[
                        { name:\"limited\" rights:[{entity:\"app.Item\" mutate_self:true mutate_all:false}] users:[{verif_key:$e},{verif_key:$v}] },
                        { name:\"members\" rights:[{entity:\"*\" mutate_self:true mutate_all:false}] users:[{verif_key:$m},{verif_key:$me}] },
                        { name:\"full\" rights:[{entity:\"*\" mutate_self:true mutate_all:true}] users:[{verif_key:$f}] }
                    ] } }"
                } else {
                    "mutate { sys.Room { admin:[{verif_key:$me}] authorisations:[
                        { name:\"all\" rights:[{entity:\"*\" mutate_self:true mutate_all:true}] users:[{verif_key:$e},{verif_key:$v},{verif_key:$m},{verif_key:$me},{verif_key:$f}] }
                    ] } }"
                };
                let res = match admin.mutate(q, Some(p)).await {
                    Ok(r) => r,
                    Err(e) => {
                        o.discard = Some(format!("room: {}", e));
                        return o;
                    }
                };
                let v: serde_json::Value = serde_json::from_str(&res).unwrap();
                let id64 = v["sys.Room"]["id"].as_str().unwrap().to_string();
                let g1 = v["sys.Room"]["authorisations"][if which == 0 { 1 } else { 0 }]["id"].as_str().unwrap_or("").to_string();
                rooms.push((uid_of(&id64), id64, g1));
            }
            let (r, r64, members_gid) = rooms[0].clone();
            let (r2, r2_64, r2_gid) = rooms[1].clone();
            // honest rows by the admin and (signed by the harness) by M, written through the admin's API where possible
            let mut honest: Vec<(String, u8)> = vec![]; // id, entity
            for i in 0..5u8 {
                Clock::advance(10);
                let mut p = Parameters::new();
                p.add("room", if i >= 3 { r2_64.clone() } else { r64.clone() }).unwrap();
                p.add("t", format!("honest {}", i)).unwrap();
                let q = if i % 2 == 0 { "mutate { app.Item { room_id:$room name:$t links:[{name:$t}] } }" } else { "mutate { app.Note { room_id:$room text:$t } }" };
                if let Ok(js) = admin.mutate(q, Some(p)).await {
                    let v: serde_json::Value = serde_json::from_str(&js).unwrap();
                    let en = if i % 2 == 0 { "app.Item" } else { "app.Note" };
                    honest.push((v[en]["id"].as_str().unwrap().to_string(), i % 2));
                }
            }
            // M disabled at T_DIS, L enabled at T_LATE
            Clock::set(T_DIS);
            {
                let mut p = Parameters::new();
                p.add("room", r64.clone()).unwrap();
                p.add("g", members_gid.clone()).unwrap();
                p.add("m", k64(&keys.m)).unwrap();
                let _ = admin.mutate("mutate { sys.Room { id:$room authorisations:[{ id:$g users:[{verif_key:$m enabled:false}] }] } }", Some(p)).await;
            }
            Clock::set(T_LATE);
            {
                let mut p = Parameters::new();
                p.add("room", r64.clone()).unwrap();
                p.add("g", members_gid.clone()).unwrap();
                p.add("l", k64(&keys.l)).unwrap();
                let _ = admin.mutate("mutate { sys.Room { id:$room authorisations:[{ id:$g users:[{verif_key:$l}] }] } }", Some(p)).await;
            }
            // F, who holds the all-rows right in R for ever, loses its rights in the other room at T_LATE: a row
            // that F moves out of R2 later than that needs a right F no longer has there
            {
                Clock::advance(10);
                let mut p = Parameters::new();
                p.add("room", r2_64.clone()).unwrap();
                p.add("g", r2_gid.clone()).unwrap();
                p.add("f", k64(&keys.f)).unwrap();
                let _ = admin.mutate("mutate { sys.Room { id:$room authorisations:[{ id:$g users:[{verif_key:$f enabled:false}] }] } }", Some(p)).await;
            }
            Clock::set(T_NOW);
            admin.recompute().await;
            // the victim learns rooms and honest rows from the admin
            let st = pull(&victim, &admin, &PullOptions::default()).await;
            if !st.sync_errors.is_empty() {
                o.discard = Some(format!("honest pull: {:?}", st.sync_errors));
                return o;
            }
            let model_r = RoomModel::from_room(&victim.room(r).await.unwrap());
            let model_r2 = RoomModel::from_room(&victim.room(r2).await.unwrap());
            let before = victim.snapshot().await;

            // ---- craft ------------------------------------------------------------------------------
            let held = |id: &str| before.nodes.iter().find(|n| n.id == id).cloned();
            let mut evil = Evil { room: r, def_date: victim.db.get_room_definition(r).await.ok().flatten().map(|d| d.room_def_date).unwrap_or(0), split: case.split as usize, ..Default::default() };
            // per crafted element: the oracle's verdict (true = may be stored) and a description
            let mut node_verdict: BTreeMap<String, (bool, String, i64, String)> = BTreeMap::new(); // id -> (allowed, why, mdate, sig)
            let mut edge_verdict: Vec<(Edge, bool, String)> = vec![];
            let mut del_verdict: Vec<(NodeDeletionEntry, bool, String)> = vec![];
            let mut edel_verdict: Vec<(EdgeDeletionEntry, bool, String)> = vec![];
            let mut flaws = 0;
            let mut previous_sig: BTreeMap<u8, Vec<u8>> = BTreeMap::new();
            let can = |m: &RoomModel, key: &Ed25519SigningKey, ent: &str, date: i64, need: Need| m.can(&b64(&key.export_verifying_key()), ent, date, need);
            for (ci, c) in case.items.iter().enumerate() {
                match c {
                    Crafted::NewRow { author, entity, when, flaw } => {
                        let key = keys.get(*author);
                        let d = date_of(*when);
                        let mut n = Node {
                            id: new_uid(),
                            room_id: Some(r),
                            cdate: d,
                            mdate: d,
                            _entity: short(*entity).to_string(),
                            _json: Some(item_json(*entity, &format!("crafted {}", ci))),
                            _binary: None,
                            verifying_key: vec![],
                            _signature: vec![],
                            _local_id: None,
                        };
                        let mut slot = n._entity.clone();
                        let mut structurally_ok = true;
                        let mut why = String::new();
                        match flaw {
                            Flaw::None => {}
                            Flaw::WrongRoom => {
                                n.room_id = Some(r2);
                                structurally_ok = false;
                                why = "row of another room".into();
                            }
                            Flaw::NoRoom => {
                                n.room_id = None;
                                structurally_ok = false;
                                why = "row without room".into();
                            }
                            Flaw::UnknownEntity => {
                                n._entity = "9.9".into();
                                structurally_ok = false;
                                why = "unknown entity".into();
                            }
                            Flaw::BadJson(k) => {
                                n._json = match k % 4 {
                                    0 => Some("{\"33\":4}".to_string()),
                                    1 => Some("{\"32\":5}".to_string()),
                                    2 => Some("[1]".to_string()),
                                    _ => None,
                                };
                                structurally_ok = json_conforms(&n._entity, &n._json);
                                why = format!("JSON violating the model ({})", k % 4);
                            }
                            Flaw::Oversized => {
                                n._json = Some(item_json(*entity, &"x".repeat(1100)));
                                structurally_ok = false;
                                why = "larger than the maximum row size".into();
                            }
                            Flaw::OtherSlot => {
                                slot = short(*entity + 1).to_string();
                            }
                            _ => {}
                        }
                        force_sign(&mut n, key);
                        match flaw {
                            Flaw::Tampered(k) => {
                                match k % 5 {
                                    0 => n._json = Some(item_json(*entity, "tampered")),
                                    1 => n.mdate += 1,
                                    2 => n.room_id = Some(r2),
                                    3 => {
                                        n.verifying_key = if *author % AUTHORS == 4 { keys.e.export_verifying_key() } else { keys.f.export_verifying_key() }
                                    }
                                    _ => n.cdate -= 1,
                                }
                                structurally_ok = false;
                                why = "changed after signing".into();
                            }
                            Flaw::ForeignSignature => {
                                if let Some(s) = previous_sig.get(&(*author % AUTHORS)) {
                                    n._signature = s.clone();
                                    structurally_ok = false;
                                    why = "signature of another row".into();
                                }
                            }
                            _ => {}
                        }
                        previous_sig.insert(*author % AUTHORS, n._signature.clone());
                        let right = can(&model_r, key, ename(short(*entity)), n.mdate, Need::Own);
                        let allowed = structurally_ok && right;
                        if !allowed {
                            flaws += 1;
                        }
                        if why.is_empty() && !right {
                            why = format!("author {} has no own-rows right on {} at {}", author % AUTHORS, ename(short(*entity)), n.mdate);
                        }
                        node_verdict.insert(b64(&n.id), (allowed, why, n.mdate, b64(&n._signature)));
                        evil.nodes.push((n, slot));
                    }
                    Crafted::Replace { author, target, when, move_room, flaw } => {
                        if honest.is_empty() {
                            continue;
                        }
                        let (hid, hent) = honest[pick(*target, honest.len())].clone();
                        let Some(h) = held(&hid) else { continue };
                        let key = keys.get(*author);
                        let d = date_of(*when).max(h.mdate + 1);
                        let old_room64 = h.room.clone().unwrap();
                        let serve_room_is_r = old_room64 == r64 || *move_room;
                        if !serve_room_is_r {
                            continue;
                        }
                        let mut n = Node {
                            id: uid_of(&hid),
                            room_id: Some(r),
                            cdate: h.cdate,
                            mdate: d,
                            _entity: short(hent).to_string(),
                            _json: Some(item_json(hent, &format!("replaced {}", ci))),
                            _binary: None,
                            verifying_key: vec![],
                            _signature: vec![],
                            _local_id: None,
                        };
                        let mut ok = true;
                        let mut why = String::new();
                        if let Flaw::BadJson(k) = flaw {
                            n._json = match k % 4 {
                                0 => Some("{\"33\":4}".to_string()),
                                1 => Some("{\"32\":5}".to_string()),
                                2 => Some("[1]".to_string()),
                                _ => None,
                            };
                            ok = json_conforms(&n._entity, &n._json);
                            why = "JSON violating the model".into();
                        }
                        force_sign(&mut n, key);
                        if let Flaw::Tampered(_) = flaw {
                            n._json = Some(item_json(hent, "tampered"));
                            ok = false;
                            why = "changed after signing".into();
                        }
                        let same_author = h.key == b64(&key.export_verifying_key());
                        // when an allowed deletion record for that row travels in the same pull, the row may be
                        // gone when the new version arrives: the version is then a creation (own-rows right)
                        let deleted_in_batch = case.items.iter().any(|x| matches!(x, Crafted::DeleteRow { target: t, .. } if pick(*t, honest.len()) == pick(*target, honest.len())));
                        let need = if same_author || deleted_in_batch { Need::Own } else { Need::All };
                        let en = ename(short(hent));
                        let mut right = can(&model_r, key, en, d, need);
                        if old_room64 != r64 {
                            // the row leaves the other room: the right is needed there too
                            right = right && can(&model_r2, key, en, d, need);
                        }
                        if why.is_empty() && !right {
                            why = format!("author {} lacks the {:?} right on {} at {} (row held from {})", author % AUTHORS, need, en, d, if same_author { "itself" } else { "another author" });
                        }
                        let allowed = ok && right;
                        if !allowed {
                            flaws += 1;
                        }
                        // several crafted versions of one row: the verdict is per (id, signature)
                        node_verdict.insert(format!("{}#{}", b64(&n.id), b64(&n._signature)), (allowed, why, n.mdate, b64(&n._signature)));
                        evil.nodes.push((n.clone(), n._entity.clone()));
                    }
                    Crafted::Reference { author, src, dest, when, label, src_entity_ok } => {
                        if honest.len() < 2 {
                            continue;
                        }
                        let (sid, sent) = honest[pick(*src, honest.len())].clone();
                        let (did, _) = honest[pick(*dest, honest.len())].clone();
                        let Some(hs) = held(&sid) else { continue };
                        let key = keys.get(*author);
                        let d = date_of(*when);
                        let lab = ["35", "34", "77", "32"][*label as usize % 4];
                        let mut e = Edge { src: uid_of(&sid), src_entity: if *src_entity_ok { short(sent).to_string() } else { "9.9".to_string() }, label: lab.to_string(), dest: uid_of(&did), cdate: d, ..Default::default() };
                        e.sign(key).unwrap();
                        // necessary conditions: the source row (as the victim stores it) is in the room being
                        // synchronised, the field is a reference field of the source entity, and the author has
                        // the right to change that row (own rows if it authored the stored row, all rows otherwise)
                        let in_room = hs.room.as_deref() == Some(r64.as_str());
                        let is_ref_field = *src_entity_ok && ((sent == 0 && (lab == "34" || lab == "35")) || (sent == 1 && lab == "33"));
                        // necessary condition only: the author may at least write its own rows of that entity
                        let need = Need::Own;
                        let right = can(&model_r, key, ename(short(sent)), d, need);
                        let allowed = in_room && is_ref_field && right;
                        let why = if !in_room {
                            "source row belongs to another room".to_string()
                        } else if !is_ref_field {
                            format!("label {} is not a reference field of the source entity", lab)
                        } else {
                            format!("author {} lacks the {:?} right on the source row at {}", author % AUTHORS, need, d)
                        };
                        if !allowed {
                            flaws += 1;
                        }
                        edge_verdict.push((e.clone(), allowed, why));
                        evil.edges.push(e);
                    }
                    Crafted::DeleteRow { author, target, when, wrong_room, forged_version } => {
                        if honest.is_empty() {
                            continue;
                        }
                        let (hid, hent) = honest[pick(*target, honest.len())].clone();
                        let Some(h) = held(&hid) else { continue };
                        let key = keys.get(*author);
                        let d = date_of(*when).max(h.mdate + 1);
                        let node = Node { id: uid_of(&hid), room_id: None, cdate: h.cdate, mdate: if *forged_version { T_NOW + DAY } else { h.mdate }, _entity: short(hent).to_string(), _json: None, _binary: None, verifying_key: vec![], _signature: vec![], _local_id: None };
                        let row_room64 = h.room.clone().unwrap();
                        let rec_room = if *wrong_room { r } else { uid_of(&row_room64) };
                        let entry = NodeDeletionEntry::build(rec_room, &node, d, key);
                        if b64(&rec_room) != r64 {
                            continue; // cannot be served for this room
                        }
                        let in_room = row_room64 == r64;
                        // when another deletion record for the same row travels in the same pull the row may be gone
                        // already: the record then deletes nobody's row (own-rows right is the necessary condition)
                        let others = case.items.iter().filter(|x| matches!(x, Crafted::DeleteRow { target: t, .. } if pick(*t, honest.len()) == pick(*target, honest.len()))).count();
                        let need = if h.key == b64(&key.export_verifying_key()) || others > 1 { Need::Own } else { Need::All };
                        let right = can(&model_r, key, ename(short(hent)), d, need);
                        let allowed = in_room && right;
                        let why = if !in_room { "the row belongs to another room".to_string() } else { format!("author {} lacks the {:?} right at {}", author % AUTHORS, need, d) };
                        if !allowed {
                            flaws += 1;
                        }
                        del_verdict.push((NodeDeletionEntry { entity_name: None, ..bincode::deserialize(&bincode::serialize(&entry).unwrap()).unwrap() }, allowed, why));
                        evil.node_dels.push(entry);
                    }
                    Crafted::DeleteRef { author, target, when } => {
                        let edges: Vec<&EdgeRow> = before.edges.iter().filter(|e| e.src_entity == "1.0").collect();
                        if edges.is_empty() {
                            continue;
                        }
                        let er = edges[pick(*target, edges.len())];
                        let Some(hs) = held(&er.src) else { continue };
                        let key = keys.get(*author);
                        let d = date_of(*when).max(er.cdate + 1);
                        let edge = Edge { src: uid_of(&er.src), src_entity: er.src_entity.clone(), label: er.label.clone(), dest: uid_of(&er.dest), cdate: er.cdate, verifying_key: unb64(&er.key), signature: unb64(&er.sig) };
                        let entry = EdgeDeletionEntry::build(r, &edge, d, key);
                        let in_room = hs.room.as_deref() == Some(r64.as_str());
                        let others = case.items.iter().filter(|x| matches!(x, Crafted::DeleteRef { .. })).count();
                        let need = if (er.key == b64(&key.export_verifying_key()) && hs.key == b64(&key.export_verifying_key())) || others > 1 { Need::Own } else { Need::All };
                        let right = can(&model_r, key, "app.Item", d, need);
                        let allowed = in_room && right;
                        if !allowed {
                            flaws += 1;
                        }
                        edel_verdict.push((bincode::deserialize(&bincode::serialize(&entry).unwrap()).unwrap(), allowed, if !in_room { "source row in another room".into() } else { format!("author {} lacks the {:?} right at {}", author % AUTHORS, need, d) }));
                        evil.edge_dels.push(entry);
                    }
                }
            }
            // order of the answers' content
            let mut x = case.perm | 1;
            for i in (1..evil.nodes.len()).rev() {
                x ^= x << 13;
                x ^= x >> 7;
                x ^= x << 17;
                evil.nodes.swap(i, (x % (i as u64 + 1)) as usize);
            }
            let honest_parts = node_verdict.values().filter(|v| v.0).count() + edge_verdict.iter().filter(|v| v.1).count();
            o.nontrivial = flaws > 0 && honest_parts > 0;

            // ---- the pull against the evil server ----------------------------------------------------
            let (q_tx, q_rx) = mpsc::channel::<QueryProtocol>(16);
            let (a_tx, a_rx) = mpsc::channel::<Answer>(16);
            let qs = QueryService::start(q_tx, a_rx);
            let server = tokio::spawn(evil_server(evil, q_rx, a_tx));
            let res = LocalPeerService::verif_synchronise_room(r, &qs, victim.peer_service.clone(), &victim.services()).await;
            drop(qs);
            server.abort();
            victim.fence().await;
            victim.recompute().await;
            o.label(if res.is_ok() { "pull-completed" } else { "pull-aborted" });
            let after = victim.snapshot().await;

            // ---- oracle: whatever is stored now and was not before must have been allowed ----------------
            let mut seen = BTreeSet::new();
            let before_nodes: BTreeSet<(String, i64, String)> = before.nodes.iter().map(|n| (n.id.clone(), n.mdate, n.sig.clone())).collect();
            let mut stored_ok = 0;
            for n in &after.nodes {
                if before_nodes.contains(&(n.id.clone(), n.mdate, n.sig.clone())) {
                    continue;
                }
                let v = node_verdict.get(&n.id).or_else(|| node_verdict.get(&format!("{}#{}", n.id, n.sig)));
                match v {
                    Some((true, _, _, _)) => stored_ok += 1,
                    Some((false, why, _, _)) => {
                        let kind = if why.contains("right") { "author-without-right" } else if why.contains("JSON") { "model-violating-json" } else if why.contains("room") { "wrong-room" } else if why.contains("signing") || why.contains("signature") { "bad-signature" } else if why.contains("size") { "oversized" } else { "other" };
                        let sig = format!("row-stored-without-entitlement:{}", kind);
                        if seen.insert(sig.clone()) {
                            o.violation(sig, format!("row {} ({}): {}", n.id, n.entity, why));
                        }
                    }
                    None => {
                        // an honest row changed although nothing crafted targeted it? (deletions handled below)
                        if seen.insert("unknown-row-appeared".to_string()) {
                            o.violation("unknown-row-appeared", format!("{:?}", n));
                        }
                    }
                }
            }
            // rows that disappeared must be covered by an allowed deletion record or an allowed replacement
            let after_ids: BTreeSet<&String> = after.nodes.iter().map(|n| &n.id).collect();
            for n in &before.nodes {
                if n.entity.starts_with("0.") || after_ids.contains(&n.id) {
                    continue;
                }
                let covered = del_verdict.iter().any(|(d, ok, _)| *ok && b64(&d.id) == n.id);
                if !covered {
                    let why = del_verdict.iter().find(|(d, _, _)| b64(&d.id) == n.id).map(|x| x.2.clone()).unwrap_or_default();
                    let sig = "row-deleted-without-entitlement".to_string();
                    if seen.insert(sig.clone()) {
                        o.violation(sig, format!("row {} vanished: {}", n.id, why));
                    }
                }
            }
            let before_dels: BTreeSet<String> = before.node_dels.iter().map(|d| d.sig.clone()).collect();
            for d in &after.node_dels {
                if before_dels.contains(&d.sig) {
                    continue;
                }
                if let Some((_, false, why)) = del_verdict.iter().find(|(x, _, _)| b64(&x.signature) == d.sig) {
                    if why.contains("another room") {
                        // the record names the synchronised room and is judged with that room's rights; that the row
                        // it names lives in another room cannot be told apart from a row that was moved later.
                        // What matters (checked above) is that the row of the other room is not removed.
                        o.label("deletion-record-naming-a-row-of-another-room-stored");
                        continue;
                    }
                    let sig = "deletion-record-stored-without-entitlement".to_string();
                    if seen.insert(sig.clone()) {
                        o.violation(sig, format!("record for {}: {}", d.id, why));
                    }
                }
            }
            // rows that an (accepted) crafted version moved into the synchronised room during this very pull: the
            // verdicts on their references were computed against the room they were in before; the move itself is
            // judged as a row, their references are not judged
            let moved_into_r: BTreeSet<String> = after
                .nodes
                .iter()
                .filter(|n| n.room.as_deref() == Some(r64.as_str()))
                .filter(|n| before.nodes.iter().any(|b| b.id == n.id && b.room.as_deref() != Some(r64.as_str())))
                .map(|n| n.id.clone())
                .collect();
            let before_edges: BTreeSet<String> = before.edges.iter().map(|e| e.sig.clone()).collect();
            for e in &after.edges {
                if before_edges.contains(&e.sig) {
                    continue;
                }
                if let Some((_, ok, why)) = edge_verdict.iter().find(|(x, _, _)| b64(&x.signature) == e.sig) {
                    if *ok {
                        stored_ok += 1;
                    } else if why.contains("another room") && moved_into_r.contains(&e.src) {
                        o.label("reference-of-a-row-moved-into-the-room-by-the-same-pull:not-judged");
                    } else {
                        let kind = if why.contains("another room") { "source-row-in-other-room" } else if why.contains("reference field") { "label-not-in-model" } else { "author-without-right" };
                        let sig = format!("reference-stored-without-entitlement:{}", kind);
                        if seen.insert(sig.clone()) {
                            o.violation(sig, format!("reference {}-{}->{}: {}", e.src, e.label, e.dest, why));
                        }
                    }
                }
            }
            let after_edge_keys: BTreeSet<(String, String, String)> = after.edges.iter().map(|e| (e.src.clone(), e.label.clone(), e.dest.clone())).collect();
            for e in &before.edges {
                if e.src_entity.starts_with("0.") || after_edge_keys.contains(&(e.src.clone(), e.label.clone(), e.dest.clone())) {
                    continue;
                }
                // the reference vanished: an allowed deletion record, or its source / destination row was legitimately deleted
                let covered = edel_verdict.iter().any(|(d, ok, _)| *ok && b64(&d.src) == e.src && b64(&d.dest) == e.dest)
                    || !after_ids.contains(&e.src)
                    || !after_ids.contains(&e.dest)
                    || moved_into_r.contains(&e.src);
                if !covered {
                    let sig = "reference-deleted-without-entitlement".to_string();
                    if seen.insert(sig.clone()) {
                        o.violation(sig, format!("reference {}-{}->{} vanished", e.src, e.label, e.dest));
                    }
                }
            }
            let before_edels: BTreeSet<String> = before.edge_dels.iter().map(|d| d.sig.clone()).collect();
            for d in &after.edge_dels {
                if before_edels.contains(&d.sig) {
                    continue;
                }
                if let Some((_, false, why)) = edel_verdict.iter().find(|(x, _, _)| b64(&x.signature) == d.sig) {
                    if why.contains("another room") && moved_into_r.contains(&d.src) {
                        o.label("reference-of-a-row-moved-into-the-room-by-the-same-pull:not-judged");
                        continue;
                    }
                    let sig = "reference-deletion-record-stored-without-entitlement".to_string();
                    if seen.insert(sig.clone()) {
                        o.violation(sig, format!("{}", why));
                    }
                }
            }
            o.count("allowed-parts-stored", stored_ok);
            o.count("allowed-parts", honest_parts as u64);
            o.count("flawed-parts", flaws as u64);
            o
        });
        drop(rt);
        let _ = std::fs::remove_dir_all(&dir);
        out
    }
    fn rule() -> String {
        "the victim (member of two rooms, holding honest rows, references and the room definitions: a member with own-rows right on one entity, a member disabled on day 2, a member enabled on day 3, a full-rights member, a non-member) runs the real pull against an evil server played by the harness, which answers every protocol query itself. Generated batches mix allowed rows with rows that must not be stored: other room, no room, unknown entity, model-violating JSON, oversized, author never / no longer / not yet member at the row's date, no right on the entity, replacement of another author's row without the all-rows right, room change without right in the room left, changed after signing, signature of another row, advertised under another entity's slot; references whose source row is in another room, with an unknown source entity or a label that is no reference field, or by an author without the right; deletion records for rows of another room, by an author without the right, for a forged version; any split and order of the answers. Oracle (necessary conditions only): everything stored or removed by the pull must have been allowed by an independent model (signature, room, model conformity, right at the row's date with own/all by the author of the stored row, both rooms for a move). Non-trivial = the batch has at least one flawed and one allowed part; distinct = distinct case digest".to_string()
    }
    fn assumptions() -> Vec<String> {
        vec![
            "rows with empty or malformed keys are left to C14 (they crash the verification thread)".into(),
            "instances of this world have a 1 KiB maximum row size".into(),
        ]
    }
}
fn main() {
    main_for::<C02>()
}
