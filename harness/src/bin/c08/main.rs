//! C08: a peer is served data only for rooms it is a member of.
use discret::verif as dvv;
use dv::engine::*;
use dv::rights::*;
use dv::syncworld::text_for;
use dv::world::*;
use dvv::database::daily_log::{DailyLog, RoomDefinitionLog};
use dvv::database::edge::{Edge, EdgeDeletionEntry};
use dvv::database::node::{Node, NodeDeletionEntry, NodeIdentifier};
use dvv::database::room_node::RoomNode;
use dvv::security::{HardwareFingerprint, SigningKey, Uid};
use dvv::synchronisation::peer_outbound_service::{InboundQueryService, RemotePeerHandle};
use dvv::synchronisation::{Answer, IdentityAnswer, Query, QueryProtocol};
use proptest::prelude::*;
use serde::{Deserialize, Serialize};
use std::collections::{BTreeMap, BTreeSet, HashSet, VecDeque};
use std::sync::atomic::{AtomicBool, Ordering};
use std::sync::Arc;
use tokio::sync::{mpsc, Mutex};

struct C08;

/// status of the requester's key in a room when the connection starts
/// 0 member (user) 1 former member (disabled) 2 never 3 admin only 4 user admin only 5 disabled admin
const STATUSES: u8 = 6;

#[derive(Clone, Debug, Serialize, Deserialize, PartialEq)]
pub enum Req {
    /// the connection gets authenticated as the requester's key
    Bind,
    Ready { ready: bool },
    Tick { ms: u32 },
    /// the server's admin enables / disables the key in a room during the connection, and the
    /// connection is told about the definition change as the real event loop does
    SetMember { room: u8, enabled: bool, notify: bool },
    Q { kind: u8, room: u8, a: u16, b: u16, day: u8, entity: u8 },
}

#[derive(Clone, Debug, Serialize, Deserialize)]
pub struct Case {
    pub statuses: Vec<u8>,
    pub rows: Vec<(u8, u8, u8)>, // (room, entity, text)
    pub links: Vec<(u16, u16)>,
    pub deletes: Vec<u16>,
    pub reqs: Vec<Req>,
}

fn strategy(max_reqs: usize) -> BoxedStrategy<Case> {
    let req = prop_oneof![
        1 => Just(Req::Bind),
        1 => any::<bool>().prop_map(|ready| Req::Ready { ready }),
        1 => prop_oneof![1u32..1000, (DAY as u32)..(2 * DAY as u32)].prop_map(|ms| Req::Tick { ms }),
        2 => (0u8..3, any::<bool>(), any::<bool>()).prop_map(|(room, enabled, notify)| Req::SetMember { room, enabled, notify }),
        14 => (0u8..13, 0u8..4, any::<u16>(), any::<u16>(), 0u8..4, 0u8..3)
            .prop_map(|(kind, room, a, b, day, entity)| Req::Q { kind, room, a, b, day, entity }),
    ];
    (
        proptest::collection::vec(0u8..STATUSES, 3),
        proptest::collection::vec((0u8..3, 0u8..2, 0u8..12), 3..12),
        proptest::collection::vec((any::<u16>(), any::<u16>()), 0..5),
        proptest::collection::vec(any::<u16>(), 0..3),
        proptest::collection::vec(req, 6..max_reqs),
    )
        .prop_map(|(statuses, rows, links, deletes, mut reqs)| {
            // most connections get authenticated early
            reqs.insert(1, Req::Bind);
            Case { statuses, rows, links, deletes, reqs }
        })
        .boxed()
}

struct Conn {
    q_tx: mpsc::Sender<QueryProtocol>,
    a_rx: mpsc::Receiver<Answer>,
    service: InboundQueryService,
    key: Arc<Mutex<Vec<u8>>>,
    ready: Arc<AtomicBool>,
    next_id: u64,
}
impl Conn {
    /// sends a query and returns every answer it produced (a sentinel identity query marks the end)
    async fn ask(&mut self, q: Query) -> Vec<Answer> {
        let id = self.next_id;
        self.next_id += 2;
        let _ = self.q_tx.send(QueryProtocol { id, query: q }).await;
        let _ = self.q_tx.send(QueryProtocol { id: id + 1, query: Query::ProveIdentity(vec![1, 2, 3]) }).await;
        let mut out = vec![];
        while let Some(a) = self.a_rx.recv().await {
            if a.id == id + 1 {
                break;
            }
            if a.id == id {
                out.push(a);
            }
        }
        out
    }
}

impl Property for C08 {
    type Case = Case;
    const ID: &'static str = "C08";
    fn plan(tier: Tier) -> Plan {
        match tier {
            Tier::Quick => Plan { shards: 16, cases_per_shard: 60, max_shrink_iters: 200 },
            Tier::Thorough => Plan { shards: 16, cases_per_shard: 2000, max_shrink_iters: 400 },
        }
    }
    fn strategy(tier: Tier) -> BoxedStrategy<Case> {
        match tier {
            Tier::Quick => strategy(40),
            Tier::Thorough => strategy(90),
        }
    }
    fn run(case: &Case, ctx: &RunCtx) -> Outcome {
        begin_case(1);
        let dir = ctx.case_dir("c08");
        let rt = runtime();
        let out = rt.block_on(async {
            let mut o = Outcome::default();
            let server = match Peer::start("server", dv::syncworld::MODEL, dir.join("s")).await {
                Ok(p) => p,
                Err(e) => {
                    o.discard = Some(e);
                    return o;
                }
            };
            let kkey = signing_key_for_secret(&secret_for("requester")).export_verifying_key();
            let k64 = b64(&kkey);
            let other64 = b64(&signing_key_for_secret(&secret_for("someone else")).export_verifying_key());
            // rooms
            let mut rooms: Vec<(Uid, String, String)> = vec![]; // id, id64, group id
            for st in &case.statuses {
                Clock::advance(1);
                let mut p = Parameters::new();
                p.add("me", server.key64()).unwrap();
                p.add("k", k64.clone()).unwrap();
                p.add("o", other64.clone()).unwrap();
                let (admins, users, uadmins) = match st % STATUSES {
                    0 | 1 => ("", "{verif_key:$k}", ""),
                    3 | 5 => (",{verif_key:$k}", "", ""),
                    4 => ("", "", "{verif_key:$k}"),
                    _ => ("", "", ""),
                };
                let users_txt = if users.is_empty() { "{verif_key:$o}".to_string() } else { format!("{{verif_key:$o}},{}", users) };
                let uadmins_txt = if uadmins.is_empty() { String::new() } else { format!("user_admin:[{}]", uadmins) };
                let q = format!(
                    "mutate {{ sys.Room {{ admin:[{{verif_key:$me}}{}] authorisations:[{{ name:\"g\" rights:[{{entity:\"*\" mutate_self:true mutate_all:true}}] users:[{}] {} }}] }} }}",
                    admins, users_txt, uadmins_txt
                );
                let res = match server.mutate(&q, Some(p)).await {
                    Ok(r) => r,
                    Err(e) => {
                        o.discard = Some(format!("room: {}", e));
                        return o;
                    }
                };
                let v: serde_json::Value = serde_json::from_str(&res).unwrap();
                let id64 = v["sys.Room"]["id"].as_str().unwrap().to_string();
                let gid = v["sys.Room"]["authorisations"][0]["id"].as_str().unwrap().to_string();
                rooms.push((uid_of(&id64), id64, gid));
            }
            // statuses that need a later entry
            Clock::advance(1000);
            for (i, st) in case.statuses.iter().enumerate() {
                let mut p = Parameters::new();
                p.add("room", rooms[i].1.clone()).unwrap();
                p.add("g", rooms[i].2.clone()).unwrap();
                p.add("k", k64.clone()).unwrap();
                let q = match st % STATUSES {
                    1 => Some("mutate { sys.Room { id:$room authorisations:[{ id:$g users:[{verif_key:$k enabled:false}] }] } }"),
                    5 => Some("mutate { sys.Room { id:$room admin:[{verif_key:$k enabled:false}] } }"),
                    _ => None,
                };
                if let Some(q) = q {
                    Clock::advance(1);
                    if let Err(e) = server.mutate(q, Some(p)).await {
                        o.discard = Some(format!("status: {}", e));
                        return o;
                    }
                }
            }
            // data over several days
            let mut row_ids: Vec<(String, usize)> = vec![];
            for (i, (room, entity, text)) in case.rows.iter().enumerate() {
                Clock::advance(if i % 3 == 2 { DAY } else { 7 });
                let r = *room as usize % rooms.len();
                let mut p = Parameters::new();
                p.add("room", rooms[r].1.clone()).unwrap();
                p.add("t", text_for(*text)).unwrap();
                let q = if entity % 2 == 0 { "mutate { app.Item { room_id:$room name:$t } }" } else { "mutate { app.Note { room_id:$room text:$t } }" };
                if let Ok(js) = server.mutate(q, Some(p)).await {
                    let v: serde_json::Value = serde_json::from_str(&js).unwrap();
                    let ent = if entity % 2 == 0 { "app.Item" } else { "app.Note" };
                    row_ids.push((v[ent]["id"].as_str().unwrap().to_string(), (*entity % 2) as usize));
                }
            }
            let items: Vec<String> = row_ids.iter().filter(|r| r.1 == 0).map(|r| r.0.clone()).collect();
            for (a, b) in &case.links {
                if items.len() >= 2 {
                    Clock::advance(3);
                    let mut p = Parameters::new();
                    p.add("id", items[pick(*a, items.len())].clone()).unwrap();
                    p.add("tid", items[pick(*b, items.len())].clone()).unwrap();
                    let _ = server.mutate("mutate { app.Item { id:$id links:[{id:$tid}] } }", Some(p)).await;
                }
            }
            for d in &case.deletes {
                if !row_ids.is_empty() {
                    Clock::advance(5);
                    let (id, e) = row_ids[pick(*d, row_ids.len())].clone();
                    let mut p = Parameters::new();
                    p.add("id", id).unwrap();
                    let _ = server.delete(if e == 0 { "delete { app.Item { $id } }" } else { "delete { app.Note { $id } }" }, Some(p)).await;
                }
            }
            server.recompute().await;
            let snap = server.snapshot().await;
            let all_node_ids: Vec<String> = snap.nodes.iter().filter(|n| n.room.is_some()).map(|n| n.id.clone()).collect();
            let room_of_node: BTreeMap<String, String> = snap.nodes.iter().filter_map(|n| n.room.clone().map(|r| (n.id.clone(), r))).collect();
            let days: Vec<i64> = {
                let mut d: BTreeSet<i64> = snap.log.iter().map(|l| l.date).collect();
                d.insert(T0);
                d.into_iter().collect()
            };

            // the connection, through the real serving service
            let (q_tx, q_rx) = mpsc::channel::<QueryProtocol>(8);
            let (a_tx, a_rx) = mpsc::channel::<Answer>(64);
            let key = Arc::new(Mutex::new(Vec::new()));
            let ready = Arc::new(AtomicBool::new(true));
            let handle = RemotePeerHandle { allowed_room: HashSet::new(), db: server.db.clone(), verifying_key: server.verifying_key.clone(), reply: a_tx };
            let service = InboundQueryService::start(
                HardwareFingerprint { id: [9; 16], name: "hw".into() },
                [3; 32],
                [4; 16],
                handle,
                q_rx,
                server.peer_service.clone(),
                key.clone(),
                ready.clone(),
            );
            let mut conn = Conn { q_tx, a_rx, service, key, ready, next_id: 1 };
            let mut bound = false;
            let mut seen = BTreeSet::new();
            let mut named_non_member = false;
            let random_room: Uid = [0xAB; 16];
            for (i, req) in case.reqs.iter().enumerate() {
                match req {
                    Req::Bind => {
                        *conn.key.lock().await = kkey.clone();
                        bound = true;
                    }
                    Req::Ready { ready } => conn.ready.store(*ready, Ordering::Relaxed),
                    Req::Tick { ms } => {
                        Clock::advance(*ms as i64);
                    }
                    Req::SetMember { room, enabled, notify } => {
                        let r = *room as usize % rooms.len();
                        Clock::advance(2);
                        let mut p = Parameters::new();
                        p.add("room", rooms[r].1.clone()).unwrap();
                        p.add("g", rooms[r].2.clone()).unwrap();
                        p.add("k", k64.clone()).unwrap();
                        let q = format!("mutate {{ sys.Room {{ id:$room authorisations:[{{ id:$g users:[{{verif_key:$k enabled:{}}}] }}] }} }}", enabled);
                        let _ = server.mutate(&q, Some(p)).await;
                        server.fence().await;
                        let _ = notify;
                        if bound {
                            // the real event handler of the connection (hook verif_process_local_event):
                            // every definition change reaches it through LocalEvent::RoomDefinitionChanged
                            if let Some(room) = server.room(rooms[r].0).await {
                                let (ev_tx, mut ev_rx) = mpsc::channel(4);
                                let _ = dvv::synchronisation::peer_inbound_service::LocalPeerService::verif_process_local_event(
                                    dvv::synchronisation::LocalEvent::RoomDefinitionChanged(Arc::new(room)),
                                    &conn.key,
                                    &ev_tx,
                                    &HashSet::new(),
                                    &conn.service,
                                )
                                .await;
                                while ev_rx.try_recv().is_ok() {}
                                // the service loop takes the update and the queries from two channels in no
                                // fixed order: a query racing with the update is not judged. Wait (bounded) until
                                // the update has been taken: the room stops (or starts) being served.
                                let should_serve = RoomModel::from_room(&server.room(rooms[r].0).await.unwrap()).is_member(&k64, Clock::get());
                                for _ in 0..40 {
                                    let ans = conn.ask(Query::RoomDefinition(rooms[r].0)).await;
                                    let served = ans.iter().any(|a| a.success);
                                    if served == should_serve || should_serve {
                                        break;
                                    }
                                    tokio::task::yield_now().await;
                                }
                            }
                        }
                    }
                    Req::Q { kind, room, a, b, day, entity } => {
                        Clock::advance(1);
                        let now = Clock::get();
                        let (rid, r64): (Uid, String) = if (*room as usize) < rooms.len() {
                            (rooms[*room as usize].0, rooms[*room as usize].1.clone())
                        } else {
                            (random_room, b64(&random_room))
                        };
                        let member_of = |r64: &str, models: &BTreeMap<String, RoomModel>| -> bool {
                            bound && models.get(r64).map(|m| m.is_member(&k64, now)).unwrap_or(false)
                        };
                        let mut models = BTreeMap::new();
                        for (id, id64, _) in &rooms {
                            if let Some(r) = server.room(*id).await {
                                models.insert(id64.clone(), RoomModel::from_room(&r));
                            }
                        }
                        let is_member = member_of(&r64, &models);
                        if bound && !is_member {
                            named_non_member = true;
                        }
                        let ent_short = ["1.0", "1.1", "0.2"][*entity as usize % 3].to_string();
                        let d = days[*day as usize % days.len()];
                        let ids: Vec<Uid> = if all_node_ids.is_empty() {
                            vec![]
                        } else {
                            vec![uid_of(&all_node_ids[pick(*a, all_node_ids.len())]), uid_of(&all_node_ids[pick(*b, all_node_ids.len())])]
                        };
                        let (name, query): (&str, Query) = match kind % 13 {
                            0 => ("RoomList", Query::RoomList),
                            1 => ("RoomDefinition", Query::RoomDefinition(rid)),
                            2 => ("RoomNode", Query::RoomNode(rid)),
                            3 => ("RoomLog", Query::RoomLog(rid)),
                            4 => ("RoomLogAt", Query::RoomLogAt(rid, d)),
                            5 => ("RoomDailyNodes", Query::RoomDailyNodes(rid, ent_short.clone(), d)),
                            6 => ("Nodes", Query::Nodes(rid, ids.clone())),
                            7 => ("Edges", Query::Edges(rid, ids.iter().map(|i| (*i, 0i64)).collect())),
                            8 => ("EdgeDeletionLog", Query::EdgeDeletionLog(rid, ent_short.clone(), d)),
                            9 => ("NodeDeletionLog", Query::NodeDeletionLog(rid, ent_short.clone(), d)),
                            10 => ("PeersForRoom", Query::PeersForRoom(rid)),
                            11 => ("HardwareFingerprint", Query::HardwareFingerprint()),
                            _ => ("ProveIdentity", Query::ProveIdentity(vec![7; 32])),
                        };
                        let answers = conn.ask(query).await;
                        o.count(&format!("q:{}", name), 1);
                        let mut leak = |what: String, o: &mut Outcome| {
                            let situation = if !bound {
                                "before-authentication"
                            } else if models.get(&r64).map(|m| m.keys().contains(&k64)).unwrap_or(false) {
                                "former-or-disabled-member"
                            } else {
                                "never-member"
                            };
                            let sig = format!("served-to-non-member:{}:{}", name, situation);
                            if seen.insert(sig.clone()) {
                                o.violation(sig, format!("request {} {:?} at {}: {}", i, req, now, what));
                            }
                        };
                        for a in answers {
                            if !a.success || a.serialized.is_empty() {
                                continue;
                            }
                            match name {
                                "RoomList" => {
                                    if a.complete {
                                        continue;
                                    }
                                    if let Ok(list) = bincode::deserialize::<VecDeque<Uid>>(&a.serialized) {
                                        for r in list {
                                            let r64 = b64(&r);
                                            // the server's own private room is never the requester's
                                            if !member_of(&r64, &models) {
                                                leak(format!("room list names room {}", r64), &mut o);
                                            }
                                        }
                                    }
                                }
                                "RoomDefinition" => {
                                    if let Ok(Some(_def)) = bincode::deserialize::<Option<RoomDefinitionLog>>(&a.serialized) {
                                        if !is_member {
                                            leak("room definition log served".into(), &mut o);
                                        }
                                    }
                                }
                                "RoomNode" => {
                                    if let Ok(Some(_n)) = bincode::deserialize::<Option<RoomNode>>(&a.serialized) {
                                        if !is_member {
                                            leak("room definition served".into(), &mut o);
                                        }
                                    }
                                }
                                "RoomLog" | "RoomLogAt" => {
                                    if a.complete && name == "RoomLog" {
                                        continue;
                                    }
                                    if let Ok(v) = bincode::deserialize::<Vec<DailyLog>>(&a.serialized) {
                                        for l in v {
                                            if !member_of(&b64(&l.room_id), &models) {
                                                leak(format!("daily log of room {} served", b64(&l.room_id)), &mut o);
                                            }
                                        }
                                    }
                                }
                                "RoomDailyNodes" => {
                                    if a.complete {
                                        continue;
                                    }
                                    if let Ok(v) = bincode::deserialize::<HashSet<NodeIdentifier>>(&a.serialized) {
                                        for n in v {
                                            let room = room_of_node.get(&b64(&n.id)).cloned().unwrap_or_default();
                                            if !member_of(&room, &models) {
                                                leak(format!("row identifier {} of room {} served", b64(&n.id), room), &mut o);
                                            }
                                        }
                                    }
                                }
                                "Nodes" | "PeersForRoom" => {
                                    if a.complete {
                                        continue;
                                    }
                                    if let Ok(v) = bincode::deserialize::<Vec<Node>>(&a.serialized) {
                                        for n in v {
                                            if name == "PeersForRoom" {
                                                if !is_member {
                                                    leak("member list served".into(), &mut o);
                                                }
                                                continue;
                                            }
                                            let room = n.room_id.map(|r| b64(&r)).unwrap_or_default();
                                            if !member_of(&room, &models) || room != r64 {
                                                leak(format!("row {} of room {} served", b64(&n.id), room), &mut o);
                                            }
                                        }
                                    }
                                }
                                "Edges" => {
                                    if a.complete {
                                        continue;
                                    }
                                    if let Ok(v) = bincode::deserialize::<Vec<Edge>>(&a.serialized) {
                                        for e in v {
                                            let room = room_of_node.get(&b64(&e.src)).cloned().unwrap_or_default();
                                            if !member_of(&room, &models) {
                                                leak(format!("reference of row {} of room {} served", b64(&e.src), room), &mut o);
                                            }
                                        }
                                    }
                                }
                                "EdgeDeletionLog" => {
                                    if a.complete {
                                        continue;
                                    }
                                    if let Ok(v) = bincode::deserialize::<Vec<EdgeDeletionEntry>>(&a.serialized) {
                                        for e in v {
                                            if !member_of(&b64(&e.room_id), &models) {
                                                leak("reference deletion record served".into(), &mut o);
                                            }
                                        }
                                    }
                                }
                                "NodeDeletionLog" => {
                                    if a.complete {
                                        continue;
                                    }
                                    if let Ok(v) = bincode::deserialize::<Vec<NodeDeletionEntry>>(&a.serialized) {
                                        for e in v {
                                            if !member_of(&b64(&e.room_id), &models) {
                                                leak("deletion record served".into(), &mut o);
                                            }
                                        }
                                    }
                                }
                                "HardwareFingerprint" => {
                                    if bincode::deserialize::<HardwareFingerprint>(&a.serialized).is_ok() {
                                        // only the same user (same key as the server) may obtain it
                                        o.violation("hardware-fingerprint-served-to-other-key", format!("request {}", i));
                                    }
                                }
                                "ProveIdentity" => {
                                    let _ = bincode::deserialize::<IdentityAnswer>(&a.serialized);
                                }
                                _ => {}
                            }
                            o.count("answers-with-data", 1);
                        }
                    }
                }
            }
            o.nontrivial = named_non_member;
            if named_non_member {
                o.label("non-member-room-named-after-authentication");
            }
            for st in &case.statuses {
                o.label(format!("status:{}", st % STATUSES));
            }
            o
        });
        drop(rt);
        let _ = std::fs::remove_dir_all(&dir);
        out
    }
    fn rule() -> String {
        "a real instance holding 3 rooms (rows of two entities, references, node and reference deletions over several days) serves a connection through the real InboundQueryService; the requester's key has a generated status per room (user, former user, never, admin only, user admin only, disabled admin); generated request sequences of every protocol query kind with room / row / entity / day identifiers drawn from all rooms (member and non-member) and random ones, authentication and ready-flag changes, clock ticks, and membership changes by the admin during the connection (with the notification the real event loop sends). Every answer is decoded by kind; every room id, row, reference (through its source row), log entry, deletion record or member list it carries must belong to a room of which the key is a member at the time of the request (independent rights model); nothing but the identity proof before authentication. Non-trivial = a non-member room is named after authentication; distinct = distinct case digest".to_string()
    }
    fn assumptions() -> Vec<String> {
        vec!["every room-definition change made during the connection is delivered to the connection's real event handler (as the event broadcast does in a running instance)".into()]
    }
}
fn main() {
    main_for::<C08>()
}
