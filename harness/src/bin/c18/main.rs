//! C18: every committed change is announced.
use discret::Event;
use dv::engine::*;
use dv::props::sync::{case_strategy, SyncCase};
use dv::syncworld::*;
use dv::world::*;
use proptest::strategy::BoxedStrategy;
use std::collections::BTreeSet;
use std::sync::{Arc, Mutex};

struct C18;

#[derive(Default)]
struct EventLog {
    /// (room, entity name, day)
    data: Vec<(String, String, i64)>,
    /// (room id, number of user keys the carried definition knows)
    rooms: Vec<(String, BTreeSet<String>)>,
    lagged: bool,
}

fn entity_name(short: &str) -> String {
    match short {
        "1.0" => "app.Item".to_string(),
        "1.1" => "app.Note".to_string(),
        x => x.to_string(),
    }
}

type Triple = (String, String, i64);

fn triples(s: &Snapshot) -> BTreeSet<(String, Triple)> {
    // (row identity incl. version, triple): a change = an element present after and not before
    let day = |t: i64| t.div_euclid(DAY) * DAY;
    let mut out = BTreeSet::new();
    for n in &s.nodes {
        if let Some(r) = &n.room {
            out.insert((format!("n{}{}{}", n.id, n.mdate, n.sig), (r.clone(), entity_name(&n.entity), day(n.mdate))));
        }
    }
    for d in &s.node_dels {
        out.insert((format!("d{}{}", d.id, d.sig), (d.room.clone(), entity_name(&d.entity), day(d.deletion_date))));
    }
    for d in &s.edge_dels {
        out.insert((format!("e{}{}{}", d.src, d.dest, d.sig), (d.room.clone(), entity_name(&d.src_entity), day(d.deletion_date))));
    }
    out
}

impl Property for C18 {
    type Case = SyncCase;
    const ID: &'static str = "C18";
    fn plan(tier: Tier) -> Plan {
        match tier {
            Tier::Quick => Plan { shards: 16, cases_per_shard: 50, max_shrink_iters: 150 },
            Tier::Thorough => Plan { shards: 16, cases_per_shard: 1500, max_shrink_iters: 300 },
        }
    }
    fn strategy(tier: Tier) -> BoxedStrategy<SyncCase> {
        match tier {
            Tier::Quick => case_strategy(30, 3, false),
            Tier::Thorough => case_strategy(60, 3, false),
        }
    }
    fn run(case: &SyncCase, ctx: &RunCtx) -> Outcome {
        begin_case(1);
        let dir = ctx.case_dir("c18");
        let rt = runtime();
        let out = rt.block_on(async {
            let mut o = Outcome::default();
            let mut w = match SyncWorld::start(case.peers as usize, case.rooms as usize, &dir).await {
                Ok(w) => w,
                Err(e) => {
                    o.discard = Some(format!("world-start:{}", e));
                    return o;
                }
            };
            // the harness never asks for a recomputation itself in this property
            w.recompute_after_stream = false;
            w.no_double_delete = case.mode == 0;
            let mut logs: Vec<Arc<Mutex<EventLog>>> = vec![];
            let mut receivers = vec![];
            for p in &w.peers {
                logs.push(Arc::new(Mutex::new(EventLog::default())));
                receivers.push(p.events.subcribe().await);
            }
            // after a fence every event of the step has been broadcast: drain without waiting
            fn drain(rx: &mut tokio::sync::broadcast::Receiver<Event>, log: &Arc<Mutex<EventLog>>) {
                use tokio::sync::broadcast::error::TryRecvError;
                let mut l = log.lock().unwrap();
                loop {
                    match rx.try_recv() {
                        Ok(Event::DataChanged(dm)) => {
                            for (room, ents) in &dm.rooms {
                                for (ent, days) in ents {
                                    for d in days {
                                        l.data.push((room.clone(), ent.clone(), *d));
                                    }
                                }
                            }
                        }
                        Ok(Event::RoomModified(room)) => {
                            let users: BTreeSet<String> = room.users().iter().map(|k| b64(k)).collect();
                            l.rooms.push((b64(&room.id), users));
                        }
                        Ok(_) => {}
                        Err(TryRecvError::Lagged(_)) => l.lagged = true,
                        Err(_) => break,
                    }
                }
            }
            let mut shared_batch = false;
            let mut used_stream = false;
            let mut seen = BTreeSet::new();
            for (i, op) in case.ops.iter().enumerate() {
                if matches!(op, Op::Recompute { .. }) {
                    continue; // would mask a missing recomputation
                }
                // known finding 'mutation-stream': excluded by construction in mode 0 (the burst is
                // issued by concurrent callers instead), counted
                let replaced;
                let op = match op {
                    Op::Burst { peer, n, stream: true, room } if case.mode == 0 => {
                        o.count("excluded_by_construction", 1);
                        replaced = Op::Burst { peer: *peer, n: *n, stream: false, room: *room };
                        &replaced
                    }
                    other => other,
                };
                let mut before = vec![];
                let mut marks = vec![];
                for (pi, p) in w.peers.iter().enumerate() {
                    p.fence().await;
                    drain(&mut receivers[pi], &logs[pi]);
                    before.push(triples(&p.snapshot().await.user_data()));
                    let l = logs[pi].lock().unwrap();
                    marks.push((l.data.len(), l.rooms.len()));
                }
                let info = w.apply(op).await;
                if !info.applied {
                    continue;
                }
                o.count(&format!("op:{}", info.kind), 1);
                if std::env::var("DV_TRACE").is_ok() {
                    println!("step {} {:?} -> {} {:?}", i, op, info.kind, info.result);
                    for st in &info.stats {
                        println!("   link rows {} errors {:?} queries {:?}", st.rows(), st.sync_errors, st.queries);
                    }
                }
                if info.kind.starts_with("burst") || info.kind == "sync-both" {
                    shared_batch = true;
                }
                if info.kind == "burst-stream" {
                    used_stream = true;
                }
                for (pi, p) in w.peers.iter().enumerate() {
                    p.fence().await;
                    drain(&mut receivers[pi], &logs[pi]);
                    let after = triples(&p.snapshot().await.user_data());
                    let touched: BTreeSet<Triple> = after.difference(&before[pi]).map(|x| x.1.clone()).collect();
                    let l = logs[pi].lock().unwrap();
                    if l.lagged {
                        o.discard = Some("subscriber-lagged".into());
                        return o;
                    }
                    let announced: BTreeSet<Triple> = l.data[marks[pi].0..].iter().cloned().collect();
                    for t in &touched {
                        o.count("touched-triples", 1);
                        if !announced.contains(t) {
                            let how = match info.kind {
                                "burst-stream" => "mutation-stream",
                                k if k.starts_with("sync") => "synchronised-batch",
                                "burst-concurrent" => "concurrent-mutations",
                                k if k.starts_with("delete") => "deletion",
                                _ => "mutation",
                            };
                            let sig = format!("data-change-not-announced:{}", how);
                            if seen.insert(sig.clone()) {
                                o.violation(sig, format!("{} step {} {:?}: committed change of {:?} not named by any data-changed event received since the operation was submitted (events: {:?})", p.name, i, op, t, announced));
                            }
                        }
                    }
                    if info.kind == "room-change" && pi == 0 {
                        if let Some(Ok(())) = &info.result {
                            // the admin's instance must announce the new definition
                            let room_after = p.room(w.rooms[match op { Op::RoomChange { room, .. } => *room as usize % w.rooms.len(), _ => 0 }]).await;
                            let expected: BTreeSet<String> = room_after.map(|r| r.users().iter().map(|k| b64(k)).collect()).unwrap_or_default();
                            let got = l.rooms[marks[pi].1..].iter().any(|(_, users)| *users == expected);
                            o.count("room-changes", 1);
                            if !got {
                                let sig = "room-change-not-announced";
                                if seen.insert(sig.to_string()) {
                                    o.violation(sig, format!("{} step {}: accepted room mutation not followed by a room-modified event carrying the new definition", p.name, i));
                                }
                            }
                        }
                    }
                }
            }
            o.nontrivial = shared_batch || used_stream;
            if shared_batch {
                o.label("changes-sharing-a-batch");
            }
            if used_stream {
                o.label("mutation-stream");
            }
            o.label(format!("peers:{}", w.peers.len()));
            o
        });
        drop(rt);
        let _ = std::fs::remove_dir_all(&dir);
        out
    }
    fn rule() -> String {
        "proptest histories over 2-3 real instances with one subscriber per instance subscribed before the first change: local mutations/deletions, bursts of 2-5 creations through a mutation stream or by concurrent callers, room-definition changes by the admin, directed/simultaneous/interrupted pulls; for every step the rows and deletion records that appeared on each instance are mapped to (room, entity, day) and each must be named by a data-changed event received between the submission of the step and a fence; the harness never requests a recomputation itself; non-trivial = a burst, a stream or simultaneous pulls; distinct = distinct case digest".to_string()
    }
    fn assumptions() -> Vec<String> {
        vec![
            "only the triple of the NEW version (or of the deletion record) is required, not the day an old version left".into(),
            "a lagged broadcast receiver makes the case a discard, not a violation (documented behaviour of the channel)".into(),
        ]
    }
}
fn main() {
    main_for::<C18>()
}
