pub mod sync;
