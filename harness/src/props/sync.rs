//! C03 (convergence) and C11 (a deleted row stays deleted): one interpreter, two oracles.

use crate::engine::*;
use crate::syncworld::*;
use crate::world::*;
use proptest::prelude::*;
use serde::{Deserialize, Serialize};
use std::collections::{BTreeMap, BTreeSet};

#[derive(Clone, Debug, Serialize, Deserialize)]
pub struct SyncCase {
    pub peers: u8,
    pub rooms: u8,
    pub ops: Vec<Op>,
    pub perm: u64,
    /// 0: shapes of known findings excluded by construction (one entity, a row is deleted by at
    ///    most one peer); 1: two entities; 2: nothing excluded
    #[serde(default)]
    pub mode: u8,
}

pub fn case_strategy(max_ops: usize, max_peers: u8, bias_stale: bool) -> BoxedStrategy<SyncCase> {
    (2u8..=max_peers, 1u8..=2)
        .prop_flat_map(move |(peers, rooms)| {
            let op = if bias_stale {
                stale_op_strategy(peers, rooms).boxed()
            } else {
                op_strategy(peers, rooms).boxed()
            };
            (
                Just(peers),
                Just(rooms),
                proptest::collection::vec(op, 3..max_ops),
                any::<u64>(),
                if bias_stale {
                    // C11: a row deleted again after it came back at a newer version is of interest
                    prop_oneof![3 => Just(0u8), 1 => Just(1u8), 4 => Just(2u8)].boxed()
                } else {
                    prop_oneof![6 => Just(0u8), 1 => Just(1u8), 1 => Just(2u8)].boxed()
                },
            )
        })
        .prop_map(|(peers, rooms, ops, perm, mode)| SyncCase { peers, rooms, ops, perm, mode })
        .boxed()
}

/// schedules biased towards deletions and pulls (C11)
fn stale_op_strategy(peers: u8, rooms: u8) -> impl Strategy<Value = Op> {
    let act = prop_oneof![
        3 => (0u8..2, 0..rooms, 0u8..14, proptest::option::weighted(0.3, any::<u16>()))
            .prop_map(|(entity, room, text, parent)| Action::Create { entity, room, text, parent }),
        1 => (any::<u16>(), 0u8..14).prop_map(|(row, value)| Action::Update { row, value }),
        2 => (any::<u16>(), any::<u16>()).prop_map(|(row, target)| Action::AddLink { row, target }),
        4 => any::<u16>().prop_map(|row| Action::DeleteNode { row }),
        2 => (any::<u16>(), any::<u16>()).prop_map(|(row, target)| Action::DeleteLink { row, target }),
    ];
    prop_oneof![
        1 => tick_strategy().prop_map(|ms| Op::Tick { ms }),
        6 => (0..peers, dt_strategy(), act).prop_map(|(peer, dt, action)| Op::Write { peer, dt, action }),
        8 => (0..peers, 0..peers).prop_map(|(puller, server)| Op::Sync { puller, server }),
    ]
}

#[derive(Default)]
pub struct SyncResult {
    pub c03: Vec<Violation>,
    pub c11: Vec<Violation>,
    pub labels: Vec<String>,
    pub nontrivial_c03: bool,
    pub nontrivial_c11: bool,
    pub counters: BTreeMap<String, u64>,
    pub error: Option<String>,
}

fn v(sig: &str, detail: String) -> Violation {
    Violation {
        signature: sig.to_string(),
        detail,
    }
}

/// tombstone invariant on one peer: no stored row at a version <= a stored deletion record
fn tombstone_violations(peer: &str, s: &Snapshot) -> Vec<Violation> {
    let mut out = vec![];
    for d in &s.node_dels {
        for n in &s.nodes {
            if n.id == d.id && n.mdate <= d.mdate {
                out.push(v(
                    "resurrection:node",
                    format!(
                        "{} stores node {} at mdate {} although it holds a deletion record for version {}",
                        peer, n.id, n.mdate, d.mdate
                    ),
                ));
            }
        }
    }
    for d in &s.edge_dels {
        for e in &s.edges {
            if e.src == d.src && e.dest == d.dest && e.label == d.label && e.cdate <= d.cdate {
                // the deleted instance itself came back, or an older instance of the same reference (created on
                // another peer before the deleted one, by somebody who had not seen it) is stored beside the record
                let sig = if e.cdate == d.cdate && d.deletion_date <= e.cdate {
                    // created, deleted and created again within one millisecond: the new instance carries the
                    // creation date the deletion record names
                    "resurrection:edge:re-added-in-the-millisecond-of-its-deletion"
                } else if e.cdate == d.cdate {
                    "resurrection:edge"
                } else {
                    "resurrection:edge:older-instance-of-the-reference"
                };
                out.push(v(
                    sig,
                    format!(
                        "{} stores edge {}-{}->{} cdate {} although it holds a deletion record for cdate {}",
                        peer, e.src, e.label, e.dest, e.cdate, d.cdate
                    ),
                ));
            }
        }
    }
    out
}

pub fn run_sync_case(case: &SyncCase, ctx: &RunCtx, full_query: bool) -> SyncResult {
    begin_case(1);
    let dir = ctx.case_dir("sync");
    let rt = runtime();
    let res = rt.block_on(async {
        let mut r = SyncResult::default();
        let mut w = match SyncWorld::start(case.peers as usize, case.rooms as usize, &dir).await {
            Ok(w) => w,
            Err(e) => {
                r.error = Some(e);
                return r;
            }
        };
        let n = w.peers.len();
        let mut writers_per_row: BTreeMap<String, BTreeSet<usize>> = BTreeMap::new();
        let mut pullers = BTreeSet::new();
        let mut syncs = 0;
        let mut deletions = 0;
        // per peer: set of tombstoned ids already applied -> to detect "pull from stale peer after deletion"
        let mut stale_pull = false;
        let mut seen_res: BTreeSet<String> = BTreeSet::new();
        // (mode 0 used a single entity per room while the room summary ignored the other entities: repaired)
        w.single_entity = false;
        w.ordered_reference_changes = case.mode == 0;
        w.no_double_delete = case.mode <= 1;
        r.labels.push(format!("mode:{}", case.mode));
        // rows that changed room during the history
        let mut moved_rows: BTreeSet<String> = BTreeSet::new();
        for op in &case.ops {
            let rows_before = w.rows.len();
            let move_target = match op {
                Op::Write { action: Action::Move { row, .. }, .. } if !w.rows.is_empty() => Some(w.rows[pick(*row, w.rows.len())].id.clone()),
                _ => None,
            };
            let info = w.apply(op).await;
            if !info.applied {
                continue;
            }
            if let (Some(id), "move") = (move_target, info.kind) {
                moved_rows.insert(id);
            }
            *r.counters.entry(format!("op:{}", info.kind)).or_insert(0) += 1;
            match &info.result {
                Some(Err(e)) => {
                    // a local write by a full-rights member must not fail
                    r.labels.push(format!("local-error:{}", info.kind));
                    r.c03.push(v("local-write-refused", format!("{} {:?}: {}", info.kind, op, e)));
                }
                Some(Ok(())) => {
                    if let Op::Write { action, .. } = op {
                        let peer = info.peer.unwrap();
                        let target = match action {
                            Action::Create { .. } => {
                                if w.rows.len() > rows_before {
                                    Some(w.rows.last().unwrap().id.clone())
                                } else {
                                    None
                                }
                            }
                            Action::Update { row, .. }
                            | Action::SetParent { row, .. }
                            | Action::AddLink { row, .. }
                            | Action::Move { row, .. }
                            | Action::DeleteLink { row, .. }
                            | Action::DeleteParent { row }
                            | Action::DeleteNode { row } => {
                                Some(w.rows[pick(*row, w.rows.len())].id.clone())
                            }
                        };
                        if let Some(t) = target {
                            writers_per_row.entry(t).or_default().insert(peer);
                        }
                        if matches!(
                            action,
                            Action::DeleteNode { .. } | Action::DeleteLink { .. } | Action::DeleteParent { .. }
                        ) {
                            deletions += 1;
                        }
                    }
                }
                None => {}
            }
            if info.kind.starts_with("sync") {
                syncs += 1;
                pullers.insert(info.peer.unwrap());
                for st in &info.stats {
                    if !st.sync_errors.is_empty() && info.kind != "sync-cut" {
                        r.labels.push("sync-error".to_string());
                        *r.counters.entry("sync_errors".into()).or_insert(0) += 1;
                    }
                }
            }
            if std::env::var("DV_TRACE").is_ok() {
                println!("== {:?} -> {} {:?}", op, info.kind, info.result);
                for st in &info.stats {
                    println!("   link: rows {} errors {:?} queries {:?}", st.rows(), st.sync_errors, st.queries);
                }
                for p in &w.peers {
                    let s = p.snapshot().await.user_data();
                    let short = |x: &str| x.chars().skip(2).take(4).collect::<String>();
                    let nodes: Vec<String> = s.nodes.iter().map(|n| format!("{}@{}r{}v{}k{}", short(&n.id), n.entity, short(n.room.as_deref().unwrap_or("-")), n.mdate % 100000000, short(&n.key))).collect();
                    let edges: Vec<String> = s.edges.iter().map(|e| format!("{}-{}>{}c{}", short(&e.src), e.label, short(&e.dest), e.cdate % 100000000)).collect();
                    let nd: Vec<String> = s.node_dels.iter().map(|d| format!("{}r{}v{}d{}", short(&d.id), short(&d.room), d.mdate % 100000000, d.deletion_date % 100000000)).collect();
                    let ed: Vec<String> = s.edge_dels.iter().map(|d| format!("{}>{}c{}", short(&d.src), short(&d.dest), d.cdate % 100000000)).collect();
                    let lg: Vec<String> = s.log.iter().map(|l| format!("r{}e{}d{}n{}h{}H{}{}", short(&l.room), l.entity, l.date / DAY % 1000, l.entry_number, l.daily_hash.as_deref().map(short).unwrap_or("-".into()), l.history_hash.as_deref().map(short).unwrap_or("-".into()), if l.need_recompute == Some(1) {"!"} else {""})).collect();
                    println!("   {}: N{:?} E{:?} ND{:?} ED{:?} L{:?}", p.name, nodes, edges, nd, ed, lg);
                }
            }
            // C11 invariant after every step
            let mut tomb_union: BTreeSet<String> = BTreeSet::new();
            let mut snaps = vec![];
            for p in &w.peers {
                let s = p.snapshot().await.user_data();
                for d in &s.node_dels {
                    tomb_union.insert(d.id.clone());
                }
                snaps.push(s);
            }
            for (i, s) in snaps.iter().enumerate() {
                for viol in tombstone_violations(&w.peers[i].name, s) {
                    if seen_res.insert(viol.detail.clone()) {
                        r.c11.push(viol);
                    }
                }
            }
            if info.kind.starts_with("sync") && deletions > 0 {
                // the puller holds a tombstone the server lacks -> stale pull
                if let Op::Sync { puller, server } = op {
                    let (a, b) = (*puller as usize % n, *server as usize % n);
                    let ta: BTreeSet<_> = snaps[a].node_dels.iter().map(|d| &d.id).collect();
                    let tb: BTreeSet<_> = snaps[b].node_dels.iter().map(|d| &d.id).collect();
                    let ea: BTreeSet<_> = snaps[a].edge_dels.iter().map(|d| (&d.src, &d.dest)).collect();
                    let eb: BTreeSet<_> = snaps[b].edge_dels.iter().map(|d| (&d.src, &d.dest)).collect();
                    if ta.difference(&tb).next().is_some() || ea.difference(&eb).next().is_some() {
                        stale_pull = true;
                    }
                }
            }
        }
        *r.counters.entry("excluded_by_construction".into()).or_insert(0) += w.excluded;
        let multi_writer = writers_per_row.values().any(|s| s.len() >= 2);
        r.nontrivial_c03 = (multi_writer || deletions > 0) && syncs >= 3 && pullers.len() >= 2;
        r.nontrivial_c11 = deletions > 0 && stale_pull;
        if multi_writer {
            r.labels.push("row-written-on-two-peers".into());
        }
        if deletions > 0 {
            r.labels.push("has-deletion".into());
        }
        if stale_pull {
            r.labels.push("pull-from-stale-peer-after-deletion".into());
        }
        r.labels.push(format!("peers:{}", n));
        r.labels.push(format!("rooms:{}", case.rooms));

        // quiescence
        let (rounds, _) = w.quiesce(case.perm, n + 4).await;
        match rounds {
            None => r.c03.push(v(
                "no-quiescence",
                format!("content still changing after {} full rounds", n + 4),
            )),
            Some(k) => {
                r.labels.push(format!("quiescent-after-rounds:{}", k));
            }
        }
        let content = w.content().await;
        if std::env::var("DV_TRACE").is_ok() {
            println!("== quiescence after {:?} rounds", rounds);
            for (i, c) in content.iter().enumerate() {
                let short = |x: &str| x.chars().skip(2).take(4).collect::<String>();
                let nodes: Vec<String> = c.nodes.iter().map(|n| format!("{}v{}k{}", short(&n.id), n.mdate % 100000000, short(&n.key))).collect();
                let nd: Vec<String> = c.node_dels.iter().map(|d| format!("{}v{}d{}k{}", short(&d.id), d.mdate % 100000000, d.deletion_date % 100000000, short(&d.key))).collect();
                println!("   {}: N{:?} ND{:?} E{}", w.peers[i].name, nodes, nd, c.edges.len());
            }
            for p in &w.peers {
                let snap = p.snapshot().await;
                let short = |x: &str| x.chars().skip(2).take(5).collect::<String>();
                let l: Vec<String> = snap
                    .log
                    .iter()
                    .map(|l| format!("r{}e{}d{}n{}h{}H{}{}", short(&l.room), l.entity, l.date / 86_400_000 - 19000, l.entry_number, l.daily_hash.as_deref().map(|h| short(h)).unwrap_or("-".into()), l.history_hash.as_deref().map(|h| short(h)).unwrap_or("-".into()), if l.need_recompute.unwrap_or(0) != 0 { "!" } else { "" }))
                    .collect();
                println!("   {}: L{:?}", p.name, l);
            }
        }
        // C11 at quiescence, and resurrection classification for C03
        let mut tomb_rooms: BTreeMap<String, BTreeSet<String>> = BTreeMap::new();
        for c in &content {
            for d in &c.node_dels {
                tomb_rooms.entry(d.id.clone()).or_default().insert(d.room.clone());
            }
        }
        let mut tombs: BTreeMap<String, i64> = BTreeMap::new();
        for c in &content {
            for d in &c.node_dels {
                let e = tombs.entry(d.id.clone()).or_insert(d.mdate);
                if d.mdate > *e {
                    *e = d.mdate;
                }
            }
        }
        let raw_end = w.raw_content().await;
        for (i, c) in content.iter().enumerate() {
            for viol in tombstone_violations(&w.peers[i].name, &raw_end[i]) {
                if seen_res.insert(viol.detail.clone()) {
                    r.c11.push(viol);
                }
            }
            for (id, m) in &tombs {
                if rounds.is_some() {
                    if !c.node_dels.iter().any(|d| &d.id == id) {
                        r.c11.push(v(
                            "tombstone-missing-at-quiescence",
                            format!("{} lacks the deletion record of {}", w.peers[i].name, id),
                        ));
                    }
                    if c.nodes.iter().any(|nn| &nn.id == id && nn.mdate <= *m) {
                        r.c11.push(v(
                            "deleted-row-present-at-quiescence",
                            format!("{} still stores {} at a version <= {}", w.peers[i].name, id, m),
                        ));
                    }
                }
            }
        }
        if rounds.is_some() {
            for i in 1..n {
                if content[i] != content[0] {
                    let raw = w.raw_content().await;
                    // per room: do the room definition logs (what the protocol compares first) agree?
                    let mut logs_equal: BTreeMap<String, bool> = BTreeMap::new();
                    for (ri, room) in w.rooms.iter().enumerate() {
                        let a = w.peers[0].db.get_room_definition(*room).await.ok().flatten();
                        let b = w.peers[i].db.get_room_definition(*room).await.ok().flatten();
                        let eq = match (a, b) {
                            (Some(a), Some(b)) => {
                                a.last_data_date == b.last_data_date
                                    && a.daily_hash == b.daily_hash
                                    && a.history_hash == b.history_hash
                            }
                            _ => false,
                        };
                        logs_equal.insert(w.rooms64[ri].clone(), eq);
                    }
                    let double = content.iter().any(|c| {
                        let mut ids = BTreeSet::new();
                        c.node_dels.iter().any(|d| !ids.insert(&d.id))
                    });
                    // rows having two or more distinct deletion records somewhere (deleted by two peers,
                    // or deleted again after a newer version came back)
                    let multi_record_ids: BTreeSet<String> = {
                        let mut recs: BTreeMap<String, BTreeSet<String>> = BTreeMap::new();
                        for c in &content {
                            for d in &c.node_dels {
                                recs.entry(d.id.clone()).or_default().insert(d.sig.clone());
                            }
                        }
                        recs.into_iter().filter(|(_, s)| s.len() > 1).map(|(k, _)| k).collect()
                    };
                    let had_cut = case.ops.iter().any(|o| matches!(o, Op::SyncCut { .. }));
                    let mut causes: BTreeMap<String, String> = BTreeMap::new();
                    let blind_name = |room: &str, kind: &str| -> String {
                        if logs_equal.get(room).copied().unwrap_or(false) {
                            // (in two-entity rooms this used to be the known finding
                            // room-log-summary-blind-to-other-entities, repaired by c935e39)
                            format!("{}:room-logs-equal", kind)
                        } else {
                            kind.to_string()
                        }
                    };
                    // nodes
                    {
                        let sa: BTreeSet<_> = content[0].nodes.iter().collect();
                        let sb: BTreeSet<_> = content[i].nodes.iter().collect();
                        let ids_a: BTreeSet<_> = content[0].nodes.iter().map(|x| &x.id).collect();
                        let ids_b: BTreeSet<_> = content[i].nodes.iter().map(|x| &x.id).collect();
                        for d in sa.symmetric_difference(&sb) {
                            let mut room = d.room.clone().unwrap_or_default();
                            // the same row may sit in another room on the other peer (a moved row):
                            // the difference is explained by whichever of the two rooms is not compared
                            for other in content[0].nodes.iter().chain(content[i].nodes.iter()) {
                                if other.id == d.id {
                                    if let Some(r) = &other.room {
                                        if logs_equal.get(r).copied().unwrap_or(false) {
                                            room = r.clone();
                                        }
                                    }
                                }
                            }
                            let cause = match tomb_rooms.get(&d.id) {
                                Some(_) if multi_record_ids.contains(&d.id) => "two-deletion-records-one-row".to_string(),
                                Some(rooms) if !rooms.contains(&room) => "moved-row-deleted-in-new-room".to_string(),
                                Some(_) => blind_name(&room, "nodes-with-tombstone"),
                                None => {
                                    if ids_a.contains(&d.id) && ids_b.contains(&d.id) {
                                        blind_name(&room, "node-versions")
                                    } else {
                                        blind_name(&room, "node-set")
                                    }
                                }
                            };
                            causes.entry(cause).or_insert_with(|| format!("{:?}", d));
                        }
                    }
                    // deletion records
                    {
                        let sa: BTreeSet<_> = content[0].node_dels.iter().collect();
                        let sb: BTreeSet<_> = content[i].node_dels.iter().collect();
                        for d in sa.symmetric_difference(&sb) {
                            let cause = if double || multi_record_ids.contains(&d.id) {
                                "two-deletion-records-one-row".to_string()
                            } else {
                                blind_name(&d.room, "node-deletion-log")
                            };
                            causes.entry(cause).or_insert_with(|| format!("{:?}", d));
                        }
                        let sa: BTreeSet<_> = content[0].edge_dels.iter().collect();
                        let sb: BTreeSet<_> = content[i].edge_dels.iter().collect();
                        for d in sa.symmetric_difference(&sb) {
                            let cause = if moved_rows.contains(&d.src) {
                                // a reference belongs to the room of its source row: a deletion record of the room the
                                // row has left is refused by the peers that already hold the moved row
                                "reference-change-concurrent-with-move-of-its-source-row".to_string()
                            } else {
                                blind_name(&d.room, "edge-deletion-log")
                            };
                            causes.entry(cause).or_insert_with(|| format!("{:?}", d));
                        }
                    }
                    // live references
                    {
                        let ea: BTreeSet<_> = content[0].edges.iter().collect();
                        let eb: BTreeSet<_> = content[i].edges.iter().collect();
                        for e in ea.symmetric_difference(&eb) {
                            let na = content[0].nodes.iter().find(|nn| nn.id == e.src);
                            let nb = content[i].nodes.iter().find(|nn| nn.id == e.src);
                            let cd = raw[0]
                                .edges
                                .iter()
                                .chain(raw[i].edges.iter())
                                .find(|x| x.src == e.src && x.dest == e.dest && x.label == e.label)
                                .map(|x| (x.cdate, x.key.clone()));
                            let cause = match (na, nb, cd.clone()) {
                                // the reference was added in a version of the row that lost against the stored one (or
                                // tied with it: same millisecond, another author)
                                (Some(a), Some(b), Some((c, k))) if a == b && (c < a.mdate || (c == a.mdate && k != a.key)) => {
                                    "reference-of-superseded-version".to_string()
                                }
                                (Some(a), Some(b), _) if a != b => continue, // follows from the node difference
                                (None, _, _) | (_, None, _) => continue,     // source row differs
                                _ => {
                                    let record_names_it = cd.as_ref().map(|(c, _)| {
                                        raw[0].edge_dels.iter().chain(raw[i].edge_dels.iter()).any(|d| d.src == e.src && d.dest == e.dest && d.label == e.label && d.cdate == *c && d.deletion_date <= *c)
                                    }).unwrap_or(false);
                                    if record_names_it {
                                        // created, deleted and created again within one millisecond: the peers that receive the
                                        // deletion record leave the reference out
                                        "reference-re-added-in-the-millisecond-of-its-deletion".to_string()
                                    } else if moved_rows.contains(&e.src) {
                                        "reference-change-concurrent-with-move-of-its-source-row".to_string()
                                    } else if tombs.contains_key(&e.src) || tombs.contains_key(&e.dest) {
                                        "reference-of-row-revived-after-deletion".to_string()
                                    } else if !(content[0].nodes.iter().any(|nn| nn.id == e.dest)
                                        && content[i].nodes.iter().any(|nn| nn.id == e.dest))
                                    {
                                        continue; // destination row differs
                                    } else if had_cut {
                                        "references-of-current-version:after-interrupted-pull".to_string()
                                    } else {
                                        "references-of-current-version".to_string()
                                    }
                                }
                            };
                            causes.entry(cause).or_insert_with(|| format!("{:?}", e));
                        }
                    }
                    if causes.is_empty() {
                        causes.insert("unclassified".to_string(), String::new());
                    }
                    for (cause, detail) in causes {
                        let sig = format!("diverged:{}", cause);
                        if !r.c03.iter().any(|x| x.signature == sig) {
                            r.c03.push(v(&sig, format!("{} vs {}: {}", w.peers[0].name, w.peers[i].name, detail)));
                        }
                    }
                }
            }
            let converged = (1..n).all(|i| content[i] == content[0]);
            // a further round transfers nothing
            let mut extra = 0;
            let mut detail = String::new();
            for a in 0..n {
                for b in 0..n {
                    if a != b {
                        Clock::advance(1);
                        let st = pull(&w.peers[a], &w.peers[b], &PullOptions::default()).await;
                        if st.rows() > 0 && detail.is_empty() {
                            detail = format!(
                                "{}<-{}: nodes {} edges {} node_dels {} edge_dels {}",
                                w.peers[a].name, w.peers[b].name, st.nodes, st.edges, st.node_deletions, st.edge_deletions
                            );
                        }
                        extra += st.rows();
                    }
                }
            }
            if extra > 0 && converged {
                r.c03.push(v("extra-round-transfers-rows", format!("{} rows; first {}", extra, detail)));
            }
            if !converged {
                // the end-state clause of C11 presupposes convergence: name the C03 root cause
                let relevant = ["two-deletion-records-one-row", "room-log-summary-blind", "moved-row-deleted"];
                let cause = r
                    .c03
                    .iter()
                    .find(|x| relevant.iter().any(|k| x.signature.contains(k)))
                    .or_else(|| r.c03.iter().find(|x| x.signature.starts_with("diverged:")))
                    .map(|x| x.signature.clone())
                    .unwrap_or_else(|| "diverged:?".to_string());
                for x in r.c11.iter_mut() {
                    if x.signature == "tombstone-missing-at-quiescence"
                        || x.signature == "deleted-row-present-at-quiescence"
                    {
                        x.signature = format!("{}:after:{}", x.signature, cause);
                    }
                }
            }
            if full_query && converged {
                let q = "query {
                    app.Item(order_by(id asc), nullable(parent, links)) { id name num mdate cdate room_id parent{id} links(order_by(id asc)){id} }
                    app.Note(order_by(id asc), nullable(about)) { id text mdate about{id} }
                }";
                let mut first: Option<String> = None;
                for p in &w.peers {
                    match p.query(q, None).await {
                        Ok(s) => match &first {
                            None => first = Some(s),
                            Some(f) => {
                                if *f != s {
                                    r.c03.push(v("query-differs", format!("{} answers differently from {}", p.name, w.peers[0].name)));
                                    break;
                                }
                            }
                        },
                        Err(e) => {
                            r.c03.push(v("query-error", e));
                            break;
                        }
                    }
                }
            }
        }
        r
    });
    drop(rt);
    let _ = std::fs::remove_dir_all(&dir);
    res
}

fn diff_kind(a: &Snapshot, b: &Snapshot, tombs: &BTreeMap<String, i64>) -> (String, String) {
    if a.nodes != b.nodes {
        let sa: BTreeSet<_> = a.nodes.iter().collect();
        let sb: BTreeSet<_> = b.nodes.iter().collect();
        let d: Vec<_> = sa.symmetric_difference(&sb).collect();
        let all_tomb = d.iter().all(|n| tombs.contains_key(&n.id));
        let ids_a: BTreeSet<_> = a.nodes.iter().map(|n| &n.id).collect();
        let ids_b: BTreeSet<_> = b.nodes.iter().map(|n| &n.id).collect();
        let kind = if all_tomb {
            "nodes-with-tombstone"
        } else if ids_a == ids_b {
            "node-versions"
        } else {
            "node-set"
        };
        return (kind.to_string(), format!("{:?}", d.iter().take(2).collect::<Vec<_>>()));
    }
    if a.edges != b.edges {
        let sa: BTreeSet<_> = a.edges.iter().collect();
        let sb: BTreeSet<_> = b.edges.iter().collect();
        let d: Vec<_> = sa.symmetric_difference(&sb).take(2).collect();
        return ("edges".to_string(), format!("{:?}", d));
    }
    if a.node_dels != b.node_dels {
        let sa: BTreeSet<_> = a.node_dels.iter().collect();
        let sb: BTreeSet<_> = b.node_dels.iter().collect();
        let d: Vec<_> = sa.symmetric_difference(&sb).take(2).collect();
        return ("node-deletion-log".to_string(), format!("{:?}", d));
    }
    let sa: BTreeSet<_> = a.edge_dels.iter().collect();
    let sb: BTreeSet<_> = b.edge_dels.iter().collect();
    let d: Vec<_> = sa.symmetric_difference(&sb).take(2).collect();
    ("edge-deletion-log".to_string(), format!("{:?}", d))
}
