#!/usr/bin/env python3
"""Seed corpus of the target `parse_texts`: the string literals of the repository's tests that
hold a data model, a query, a mutation or a deletion, grouped as `model NUL request NUL request`.
Also writes a libFuzzer dictionary from the literals of the .pest grammars.

usage: extract_seeds.py            (reads /repo/src, writes /verif/fuzz/seeds/parse_texts, /verif/fuzz/dict.txt)
"""
import glob, os, re, hashlib

SRC = "/repo/src"
OUT = "/verif/fuzz/seeds/parse_texts"

def literals(text):
    """raw strings r#"..."# / r"..." and ordinary "..." literals, in file order"""
    out = []
    i = 0
    n = len(text)
    while i < n:
        c = text[i]
        if text.startswith("//", i):
            j = text.find("\n", i)
            i = n if j < 0 else j
            continue
        if c == "r" and i + 1 < n and text[i + 1] in "#\"":
            j = i + 1
            hashes = 0
            while j < n and text[j] == "#":
                hashes += 1
                j += 1
            if j < n and text[j] == '"':
                end = text.find('"' + "#" * hashes, j + 1)
                if end > 0:
                    out.append(text[j + 1:end])
                    i = end + 1 + hashes
                    continue
        if c == '"':
            j = i + 1
            buf = []
            while j < n and text[j] != '"':
                if text[j] == "\\" and j + 1 < n:
                    e = text[j + 1]
                    if e == "n": buf.append("\n")
                    elif e == "t": buf.append("\t")
                    elif e == '"': buf.append('"')
                    elif e == "\\": buf.append("\\")
                    elif e == "\n":
                        j += 2
                        while j < n and text[j] in " \t\n": j += 1
                        continue
                    else: buf.append("\\" + e)
                    j += 2
                    continue
                buf.append(text[j])
                j += 1
            out.append("".join(buf))
            i = j + 1
            continue
        if c == "'":
            # char literal or lifetime: skip a short char literal
            m = re.match(r"'(\\.|[^'\\])'", text[i:i + 4])
            if m:
                i += len(m.group(0))
                continue
        i += 1
    return out

TYPE = re.compile(r":\s*\[?\s*(String|Integer|Float|Boolean|Base64|Json|[A-Za-z_.]+)\s*\]?", re.I)

def kind(lit):
    s = lit.strip()
    if not s or len(s) > 6000:
        return None
    low = re.sub(r"//[^\n]*\n", "", s).strip()
    if low.startswith("query"): return "q"
    if low.startswith("mutate"): return "m"
    if low.startswith("delete"): return "d"
    if re.match(r'^\{\s*"', low):
        return None
    if "{" in s and "}" in s and re.search(r":\s*\[?\s*(String|Integer|Float|Boolean|Base64|Json)\b", s, re.I):
        return "model"
    if re.match(r"^[A-Za-z_0-9]*\s*\{", low) and ":" in low and "}" in low and "\"" not in low[:2]:
        return "model"
    return None

def main():
    os.makedirs(OUT, exist_ok=True)
    for f in glob.glob(OUT + "/*"):
        os.remove(f)
    files = sorted(glob.glob(SRC + "/**/*.rs", recursive=True))
    count = 0
    for path in files:
        text = open(path, encoding="utf-8", errors="replace").read()
        if "#[cfg(test)]" not in text and "_test" not in path:
            continue
        seeds = []
        cur = None
        for lit in literals(text):
            k = kind(lit)
            if k is None:
                continue
            if k == "model":
                if cur and (len(cur) > 1 or cur[0]):
                    seeds.append(cur)
                cur = [lit]
            else:
                if cur is None:
                    cur = [""]
                cur.append(lit)
                if len(cur) >= 5:
                    seeds.append(cur)
                    cur = [cur[0]]
        if cur and (len(cur) > 1 or cur[0]):
            seeds.append(cur)
        base = os.path.relpath(path, SRC).replace("/", "_").replace(".rs", "")
        for s in seeds:
            data = "\0".join(s).encode("utf-8")
            if len(data) > 8000:
                continue
            h = hashlib.sha1(data).hexdigest()[:10]
            open(f"{OUT}/{base}_{h}", "wb").write(data)
            count += 1
    # dictionary from the grammars
    words = set()
    for g in glob.glob(SRC + "/database/query_language/*.pest"):
        for m in re.finditer(r'"((?:[^"\\]|\\.)+)"', open(g).read()):
            w = m.group(1)
            if 0 < len(w) <= 24:
                words.add(w)
    for w in ["$id", "room_id", "sys.Room", "sys_room", "sys_peer", "->$.", "nullable", "default", "index(", "@deprecated", "\\u0000"]:
        words.add(w)
    with open("/verif/fuzz/dict.txt", "w") as d:
        for w in sorted(words):
            esc = "".join(c if 32 <= ord(c) < 127 and c not in '"\\' else "\\x%02x" % b for c in w for b in c.encode("utf-8")[:1]) if all(ord(c) < 128 for c in w) else None
            if esc is None:
                continue
            d.write('"%s"\n' % esc)
        d.write('"\\x00"\n')
    print(f"{count} seeds written to {OUT}")

if __name__ == "__main__":
    main()
