#!/bin/bash
# usage: run.sh <target> <seconds> <seed> [seeded|empty]
# Builds the targets (offline), runs one libFuzzer campaign on a FRESH corpus directory under
# /verif/fuzz/corpus (seeded from /verif/fuzz/seeds/<target> unless "empty"), and prints one line:
#   C14-FUZZ target=.. seed=.. mode=.. execs=N artifacts=K tolerated=T new_signatures=S dir=<artifact dir>
# Crash artifacts are left in /verif/fuzz/artifacts/<target>-<seed>-<mode>/ with a .sig file each.
set -u
target="${1:?target}"; secs="${2:?seconds}"; seed="${3:?seed}"; mode="${4:-seeded}"
cd /verif/fuzz || exit 2
export CARGO_NET_OFFLINE=true
if ! cargo +nightly fuzz build -s none --fuzz-dir /verif/fuzz "$target" > /dev/shm/c14_fuzz_build_$target.log 2>&1; then
    tail -20 /dev/shm/c14_fuzz_build_$target.log
    echo "C14-FUZZ target=$target seed=$seed mode=$mode build=failed"
    exit 2
fi
bin=/verif/fuzz/target/x86_64-unknown-linux-gnu/release/$target
tag="$target-$seed-$mode"
corpus=/verif/fuzz/corpus/$tag
art=/verif/fuzz/artifacts/$tag
rm -rf "$corpus" "$art"; mkdir -p "$corpus" "$art"
if [ "$mode" = "seeded" ] && [ -d seeds/$target ]; then cp seeds/$target/* "$corpus"/ 2>/dev/null; fi
sigs=$art/tolerated.txt; : > "$sigs"
dict=""; [ "$target" = "parse_texts" ] && [ -f dict.txt ] && dict="-dict=/verif/fuzz/dict.txt"
jobs="${C14_FUZZ_JOBS:-4}"
log=$art/fuzz.log
C14_FUZZ_SIGS="$sigs" "$bin" "$corpus" -artifact_prefix="$art/" -max_total_time="$secs" -seed="$seed" \
    -len_control=0 -max_len=4096 -timeout=30 -rss_limit_mb=3000 $dict \
    -fork="$jobs" -ignore_crashes=1 -ignore_timeouts=1 -ignore_ooms=1 > "$log" 2>&1
execs=$(grep -oE '^#[0-9]+' "$log" | tail -1 | tr -d '#'); execs=${execs:-0}
new=0; k=0
: > "$art/new_signatures.txt"
for a in "$art"/crash-* "$art"/timeout-* "$art"/oom-*; do
    [ -f "$a" ] || continue
    k=$((k+1))
    case "$a" in
      *timeout-*) sig="resource-exhaustion@fuzz.$target" ;;
      *oom-*) sig="resource-exhaustion@fuzz.$target" ;;
      *) sig=$(C14_FUZZ_SIGS=/dev/null timeout 120 "$bin" "$a" 2>&1 | grep -o 'C14-VIOLATION signature=[^ ]*' | head -1 | sed 's/C14-VIOLATION signature=//')
         [ -z "$sig" ] && sig="crash:unclassified@fuzz.$target" ;;
    esac
    echo "$sig" > "$a.sig"
    echo "$sig" >> "$art/new_signatures.txt"
done
new=$(sort -u "$art/new_signatures.txt" | grep -c . )
tol=$(sort -u "$sigs" | grep -c . )
echo "C14-FUZZ target=$target seed=$seed mode=$mode execs=$execs artifacts=$k tolerated=$tol new_signatures=$new dir=$art"
