pub fn placeholder() {}
