//! Glue of the coverage guided part of C14. The oracle itself lives in the check
//! (`/verif/harness/src/bin/c14/shared.rs`, included here), so that a crash artifact found by
//! libFuzzer is replayed by the check without this build.
//!
//! A finding whose signature starts with a line of `/verif/fuzz/allowlist.txt` (panics: keyed on
//! file and message prefix; engine errors: the signature) is tolerated: it is appended to the
//! file named by `C14_FUZZ_SIGS` and the campaign continues. Anything else aborts the process,
//! libFuzzer then stores the input as a crash artifact. `C14_FUZZ_STRICT=1` ignores the allow
//! list (used to replay an artifact).

#[path = "/verif/harness/src/bin/c14/shared.rs"]
pub mod shared;

use std::collections::HashSet;
use std::io::Write;
use std::sync::{Mutex, OnceLock};

struct State {
    allow: Vec<String>,
    seen: HashSet<String>,
    sigs_path: Option<String>,
}

static STATE: OnceLock<Mutex<State>> = OnceLock::new();

fn state() -> &'static Mutex<State> {
    STATE.get_or_init(|| {
        let strict = std::env::var("C14_FUZZ_STRICT").map(|v| v == "1").unwrap_or(false);
        let mut allow = Vec::new();
        if !strict {
            let path = std::env::var("C14_FUZZ_ALLOW").unwrap_or_else(|_| "/verif/fuzz/allowlist.txt".to_string());
            if let Ok(text) = std::fs::read_to_string(path) {
                for l in text.lines() {
                    let l = l.trim();
                    if !l.is_empty() && !l.starts_with('#') {
                        allow.push(l.to_string());
                    }
                }
            }
        }
        Mutex::new(State { allow, seen: HashSet::new(), sigs_path: std::env::var("C14_FUZZ_SIGS").ok() })
    })
}

/// called once per input with what the oracle found
pub fn judge(findings: Vec<shared::Finding>) {
    if findings.is_empty() {
        return;
    }
    let mut st = state().lock().unwrap();
    for f in findings {
        let allowed = st.allow.iter().any(|a| f.signature.starts_with(a.as_str()));
        if allowed {
            if st.seen.insert(f.signature.clone()) {
                if let Some(p) = &st.sigs_path {
                    if let Ok(mut file) = std::fs::OpenOptions::new().create(true).append(true).open(p) {
                        let _ = writeln!(file, "{}", f.signature);
                    }
                }
            }
        } else {
            eprintln!("C14-VIOLATION signature={} detail={}", f.signature, f.detail.replace('\n', "\\n"));
            let _ = std::io::stderr().flush();
            std::process::abort();
        }
    }
}

pub fn init() {
    shared::install_hook_force();
    let _ = state();
}
