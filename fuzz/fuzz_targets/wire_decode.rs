#![no_main]
use libfuzzer_sys::fuzz_target;

fuzz_target!(init: { c14fuzz::init(); }, |data: &[u8]| {
    let (findings, _stats) = c14fuzz::shared::fuzz_wire_decode(data);
    c14fuzz::judge(findings);
});
