#![no_main]
use libfuzzer_sys::fuzz_target;
fuzz_target!(|data: &[u8]| {
    let _ = data;
    c14fuzz::placeholder();
});
