#!/bin/bash
# usage: run_all_thorough.sh <seed> ids...   runs the thorough tier of the given checks, one line per check
seed="${1:-0}"; shift
cd /verif
for id in "$@"; do
  start=$(date +%s)
  out=$(VERIF_SEED=$seed ./check $id --tier thorough 2>&1); code=$?
  end=$(date +%s)
  echo "THOROUGH $id seed=$seed exit=$code secs=$((end-start)) violations=$(echo "$out" | grep -c '^VIOLATION') known=$(echo "$out" | grep -c '^KNOWN-FINDING') $(echo "$out" | grep -E "^$id tier" | cut -c1-140)"
  echo "$out" | grep -E "^VIOLATION|signature=|INCONCLUSIVE" | cut -c1-400 | head -8
done
