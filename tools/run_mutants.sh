#!/bin/bash
# usage: run_mutants.sh <ID> [diff names...]   applies each sensitivity/<ID>/*.diff to /repo, runs the quick check,
# reverts, removes the replay files the run created, prints one line per mutant
id="$1"; shift
cd /verif
files=("$@"); [ ${#files[@]} -eq 0 ] && files=(sensitivity/$id/*.diff)
for d in "${files[@]}"; do
  [ -f "$d" ] || d="sensitivity/$id/$d"
  if ! git -C /repo apply --check "/verif/$d" 2>/dev/null; then echo "MUTANT $d: does-not-apply"; continue; fi
  git -C /repo apply "/verif/$d"
  marker=$(mktemp /dev/shm/mutant.XXXX)
  out=$(DV_MAX_SHRINK=8 ./check $id --tier quick 2>&1); code=$?
  sigs=$(echo "$out" | grep -o "signature=[^ ]*" | sort | uniq -c | tr '\n' ' ')
  git -C /repo checkout -- .
  find replays/$id -type f -newer "$marker" -delete 2>/dev/null
  rm -f "$marker"
  echo "MUTANT $d: exit=$code violations=$(echo "$out" | grep -c '^VIOLATION') $sigs"
done
# rebuild on the clean tree so that no stale binary is left
(cd harness && cargo build --offline --bin $(echo $id | tr 'A-Z' 'a-z') >/dev/null 2>&1)
