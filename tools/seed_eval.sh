#!/bin/bash
# usage: seed_eval.sh <worktree> <seed-name> <check ids...>
# confirms the seeded change in its worktree (demo fails with it, passes without), stores it under
# /verif/seeded/<seed-name>/, applies it to /repo, runs the given checks (quick tier), undoes it.
set -u
wt="$1"; name="$2"; shift 2
out=/verif/seeded/$name
mkdir -p "$out"
cd "$wt" || exit 2
if [ -f patch.diff ] && ! diff -q <(git diff -- src) patch.diff >/dev/null; then echo "WARNING: worktree src differs from its patch.diff"; fi
git diff -- src > "$out/patch.diff"
cp tests/seeded_demo.rs "$out/seeded_demo.rs" 2>/dev/null
echo "== demo WITH the change"
cargo test --offline --features verif --test seeded_demo 2>&1 | grep -E "^test |test result" | tee "$out/demo_with.txt"
git apply -R "$out/patch.diff"
echo "== demo WITHOUT the change"
cargo test --offline --features verif --test seeded_demo 2>&1 | grep -E "^test |test result" | tee "$out/demo_without.txt"
git apply "$out/patch.diff"
echo "== applying to /repo"
cd /repo || exit 2
if ! git apply --check "$out/patch.diff"; then echo "PATCH DOES NOT APPLY to /repo HEAD"; exit 2; fi
git apply "$out/patch.diff"
for id in "$@"; do
  echo "== check $id on the seeded tree"
  ( cd /verif && ./check "$id" --tier quick 2>&1 | grep -E "^C[0-9]+ tier|VIOLATION|signature=|BUILD-FAILED|INCONCLUSIVE" | cut -c1-300 | head -12; echo "exit=${PIPESTATUS[0]}" ) | tee "$out/check_$id.txt"
done
git -C /repo checkout -- .
git -C /repo status --short | head -3
# violations found on a seeded tree must not stay in the replay tier
find /verif/replays -newer "$out/patch.diff" -name '*.json' -print -delete | head -20
