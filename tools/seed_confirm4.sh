#!/bin/bash
# usage: seed_confirm4.sh <ID> <name> <demo-test-name>
# round 4: the sub-agent left /tmp/sw-<ID> with OUT/patch.diff (library change) and OUT/demo.diff (a unit test) applied.
# confirms: unit suite passes with the change, demo fails with it and passes without it; stores under /verif/seeded/<name>/
id="$1"; name="$2"; demo="$3"
wt=/tmp/sw-$id; dst=/verif/seeded/$name
export CARGO_NET_OFFLINE=true
mkdir -p "$dst"
cd "$wt" || exit 2
cp OUT/patch.diff "$dst/patch.diff"; cp OUT/demo.diff "$dst/demo.diff"; cp OUT/meta.json "$dst/agent_meta.json" 2>/dev/null
git reset -q --hard; git clean -fdq -- src; git apply OUT/patch.diff OUT/demo.diff || { echo "diffs do not apply on a clean worktree"; exit 2; }
echo "== unit tests WITH the change (demo skipped)"
cargo test --offline --lib -- --skip "$demo" 2>&1 | grep -E "^test result|FAILED|failed" | head -5 | tee "$dst/unit_with.txt"
echo "== demo WITH the change"
cargo test --offline --lib -- "$demo" 2>&1 | grep -E "^test |^test result|panicked" | cut -c1-300 | tee "$dst/demo_with.txt"
git apply -R OUT/patch.diff
echo "== demo WITHOUT the change"
cargo test --offline --lib -- "$demo" 2>&1 | grep -E "^test |^test result|panicked" | cut -c1-300 | tee "$dst/demo_without.txt"
git apply OUT/patch.diff
echo "== patch applies to /repo: $(git -C /repo apply --check "$dst/patch.diff" && echo yes || echo NO)"
