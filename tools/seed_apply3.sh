#!/bin/bash
# usage: seed_apply3.sh <seeded-name> <check ids...>   applies /verif/seeded/<name>/patch.diff to /repo,
# runs the quick tier of the given checks, reverts /repo, removes the replay files the runs created
name="$1"; shift
dst=/verif/seeded/$name
cd /repo || exit 2
[ -z "$(git status --porcelain)" ] || { echo "/repo is not clean"; exit 2; }
if git apply --check "$dst/patch.diff" 2>/dev/null; then git apply "$dst/patch.diff"
elif git apply -3 "$dst/patch.diff" >/dev/null 2>&1 && [ -z "$(git diff --name-only --diff-filter=U)" ]; then echo "(applied with 3-way merge)"
else git reset -q --hard HEAD; echo "PATCH DOES NOT APPLY to /repo HEAD"; exit 3; fi
marker=$(mktemp /dev/shm/seedmark.XXXX)
for id in "$@"; do
  echo "== check $id on the seeded tree"
  ( cd /verif && DV_MAX_SHRINK=30 ./check "$id" --tier quick 2>&1 | grep -E "^C[0-9]+ tier|VIOLATION|signature=|BUILD-FAILED|INCONCLUSIVE" | cut -c1-300 | head -10; echo "exit=${PIPESTATUS[0]}" ) | tee "$dst/check_$id.txt"
done
git -C /repo reset -q --hard HEAD
git -C /repo status --short | head -3
find /verif/replays -newer "$marker" -name '*.json' -print -delete | head -20
rm -f "$marker"
