#!/bin/bash
# usage: seed_apply4.sh <name> <check ids...>   applies /verif/seeded/<name>/patch.diff to /repo, runs the quick checks, undoes it
name="$1"; shift; out=/verif/seeded/$name
cd /repo || exit 2
[ -z "$(git status --short)" ] || { echo "/repo not clean"; exit 2; }
git apply "$out/patch.diff" || exit 2
touch /tmp/seed4-marker
for id in "$@"; do
  echo "== check $id on the seeded tree"
  ( cd /verif && ./check "$id" --tier quick 2>&1 | grep -E "^C[0-9]+ tier|VIOLATION|signature=|BUILD-FAILED|INCONCLUSIVE" | cut -c1-300 | head -12; echo "exit=${PIPESTATUS[0]}" ) | tee "$out/check_$id.txt"
done
git -C /repo checkout -- .
git -C /repo status --short | head -3
find /verif/replays -newer /tmp/seed4-marker -name '*.json' -print -delete | head -20
( cd /verif && git checkout -- evidence )
