#!/usr/bin/env python3
"""usage: manifest_add.py ID category 'text' 'note' 'technique'   (adds or replaces the check, removes it from not_applicable)"""
import json,sys
pid,cat,text,note,tech=sys.argv[1:6]
p='/verif/MANIFEST.json'
m=json.load(open(p))
m['checks']=[c for c in m['checks'] if c['property_id']!=pid]
m['checks'].append({"property_id":pid,"quick_cmd":f"./check {pid} --tier quick","thorough_cmd":f"./check {pid} --tier thorough",
 "evidence_file":f"evidence/{pid}.json","replay_cmd_template":f"./check {pid} --replay {{path}}","engine":"dv",
 "level_claimed":{"category":cat,"text":text,"design_ref":f"DESIGN.md 5/{pid}"},"level_note":note,"technique":tech})
m['checks'].sort(key=lambda c:c['property_id'])
m['not_applicable']=[x for x in m.get('not_applicable',[]) if x['property_id']!=pid]
if pid not in m['engines'][0]['serves_properties']:
    m['engines'][0]['serves_properties'].append(pid); m['engines'][0]['serves_properties'].sort()
json.dump(m,open(p,'w'),indent=1)
print('ok',pid)
