#!/usr/bin/env python3
"""usage: seed_meta.py <name> <property> '<breaks>' '<needs>' '<change>' '<caught_by comma list>' '<ran>'"""
import json,sys
name,prop,breaks,needs,change,caught,ran=sys.argv[1:8]
json.dump({"property":prop,"breaks":breaks,"needs":needs,"change":change,"caught_by":[c.strip() for c in caught.split(',') if c.strip()],"ran":ran,
 "files":{"patch.diff":"the change (against /repo at the time of seeding)","seeded_demo.rs":"the sub-agent's demonstration (integration test, --features verif)","demo_with.txt / demo_without.txt / unit_with.txt":"my own confirmation runs in the scratch worktree","check_<ID>.txt":"output of the registered checks on /repo with the change applied"}},
 open(f"/verif/seeded/{name}/meta.json","w"),indent=1)
print("ok")
