#!/bin/bash
# usage: run_all_quick.sh <seed> [ids...]   runs the quick tier of every registered check, one line per check
seed="${1:-0}"; shift
cd /verif
ids=("$@"); [ ${#ids[@]} -eq 0 ] && ids=($(jq -r '.checks[].property_id' MANIFEST.json))
for id in "${ids[@]}"; do
  start=$(date +%s)
  out=$(VERIF_SEED=$seed ./check $id --tier quick 2>&1); code=$?
  end=$(date +%s)
  echo "QUICK $id seed=$seed exit=$code secs=$((end-start)) violations=$(echo "$out" | grep -c '^VIOLATION') known=$(echo "$out" | grep -c '^KNOWN-FINDING') $(echo "$out" | grep -E "^$id tier" | cut -c1-120)"
  echo "$out" | grep -E "^VIOLATION|signature=|INCONCLUSIVE" | cut -c1-300 | head -6
done
