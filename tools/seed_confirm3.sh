#!/bin/bash
# usage: seed_confirm3.sh <ID> <name>   confirms a round-3 seeded change in its own worktree /tmp/seed3-<ID>
# (demo fails with the change, passes without it, unit tests still pass) and stores it under /verif/seeded/<name>/
id="$1"; name="$2"
wt=/tmp/seed3-$id; outd=/tmp/seed3-$id-out; dst=/verif/seeded/$name
export CARGO_NET_OFFLINE=true
mkdir -p "$dst"
cd "$wt" || exit 2
git diff -- src > "$dst/patch.diff"
if ! diff -q "$dst/patch.diff" "$outd/patch.diff" >/dev/null; then echo "NOTE: worktree diff differs from the agent's patch.diff (using the worktree's)"; fi
cp "$outd/demo.rs" "$dst/seeded_demo.rs"; cp "$outd/notes.md" "$dst/notes.md" 2>/dev/null
cp "$outd/demo.rs" tests/seed3_demo.rs
echo "== unit tests WITH the change"
cargo test --offline --lib 2>&1 | grep -E "^test result" | tee "$dst/unit_with.txt"
echo "== demo WITH the change"
cargo test --offline --features verif --test seed3_demo -- --test-threads=1 2>&1 | grep -E "^test |^test result|panicked" | cut -c1-300 | tee "$dst/demo_with.txt"
git apply -R "$dst/patch.diff"
echo "== demo WITHOUT the change"
cargo test --offline --features verif --test seed3_demo -- --test-threads=1 2>&1 | grep -E "^test |^test result|panicked" | cut -c1-300 | tee "$dst/demo_without.txt"
git apply "$dst/patch.diff"
rm -f tests/seed3_demo.rs; rm -rf test_data
echo "== done $id"
